package grandpa

// C18 - only supermajority-signed commits finalise.
//
// A generated commit message (mix of honest and adversarial entries) is handed
// to Service.handleCommitMessage over the harness fakes (fakes_test.go). The
// oracle is one-directional, exactly as the property states: whenever the
// block state records a finalisation, the number |S| of distinct current
// authorities that (a) have at least one correctly signed precommit (for the
// commit's round and the current set) on the target or a descendant, or (b)
// signed two different precommits correctly, must satisfy 3|S| > 2n. When the
// commit is not accepted nothing is finalised and an error is returned.
// Signatures are judged with crypto/ed25519 of the standard library over a
// hand-encoded payload, not with the code under test.

import (
	stded "crypto/ed25519"
	"fmt"
	"os"
	"strings"
	"testing"

	kit "github.com/ChainSafe/gossamer/internal/verifkit"
	"github.com/ChainSafe/gossamer/lib/common"
	"github.com/ChainSafe/gossamer/lib/crypto/ed25519"
	"pgregory.net/rapid"
)

const c18Rule = "commit for a target in a generated tree (2-10 blocks, finalised head anywhere), 1-10 authorities, k honest precommits on target-or-descendant " +
	"with k concentrated at need-2..need+1 (need = floor(2n/3)+1) plus 0-4 adversarial entry groups (ancestor, other fork, wrong round, wrong set, garbage signature, " +
	"signature over another vote, exact duplicate, equivocation on/off chain, doubly listed invalid entries, non-authority once/twice, unknown block, wrong number), shuffled; " +
	"non-trivial = |S| within 1 of need or an adversarial entry present; distinct by (n, tree, head, target, round, set ids, entry list)"

const c18NonMemberBase = 100 // key numbers >= this are never authorities

type c18Entry struct {
	kind string
	key  int
	vote Vote
	sig  [64]byte
}

type c18Case struct {
	n           int    // authorities = keys 0..n-1
	parent      []int  // tree
	head        int    // highest finalised block
	headRound   uint64 // round in which head was finalised
	target      Vote
	round       uint64 // commit round
	setID       uint64 // current set id of the service
	commitSet   uint64 // set id carried by the commit
	entries     []c18Entry
	adversarial int
	honestK     int
	keys        []int // authority key numbers of the current set (nil: 0..n-1)
	former      []int // key numbers of former authorities that are not in the current set (generator only)
}

type c18Result struct {
	err      error
	calls    []vFinalCall
	s        int  // |S| by the oracle
	targetOK bool // target is a known block with the stated number
	already  bool // the block state already had a finalised block for (round, setID)
	descHead bool // target descends from the finalised head
}

func (c *c18Case) describe(tree *vTree) string {
	var sb strings.Builder
	ti := -1
	if i, ok := tree.index[c.target.Hash]; ok {
		ti = i
	}
	fmt.Fprintf(&sb, "n=%d tree=%s head=%d@r%d target=%d#%d round=%d set=%d/%d:", c.n, tree.describe(), c.head, c.headRound,
		ti, c.target.Number, c.round, c.setID, c.commitSet)
	for _, e := range c.entries {
		bi := -1
		if i, ok := tree.index[e.vote.Hash]; ok {
			bi = i
		}
		fmt.Fprintf(&sb, " %s:k%d:b%d#%d:%02x", e.kind, e.key, bi, e.vote.Number, e.sig[0])
	}
	return sb.String()
}

// authorityKeys returns the key numbers of the current authority set.
func (c *c18Case) authorityKeys() []int {
	if c.keys != nil {
		return c.keys
	}
	keys := make([]int, c.n)
	for i := range keys {
		keys[i] = i
	}
	return keys
}

// c18Eval runs the commit against a fresh service and evaluates the oracle.
func c18Eval(c *c18Case) (*c18Result, *vTree, error) {
	tree := newVTree(c.parent)
	bs := newVBlockState(tree, c.head, c.headRound, c.setID, tree.size()-1)
	env, err := vNewService(bs, c.authorityKeys(), 0, c.setID)
	if err != nil {
		return nil, tree, fmt.Errorf("NewService: %w", err)
	}
	return c18Run(env, tree, c), tree, nil
}

// c18Run evaluates the oracle for commit c against the current authority set
// c.authorityKeys() / set id c.setID / finalised head c.head, hands the commit
// to the service of env and records what happened.
func c18Run(env *vEnv, tree *vTree, c *c18Case) *c18Result {
	bs := env.bs
	cm := &CommitMessage{Round: c.round, SetID: c.commitSet, Vote: c.target}
	for _, e := range c.entries {
		cm.Precommits = append(cm.Precommits, e.vote)
		cm.AuthData = append(cm.AuthData, AuthData{Signature: e.sig, AuthorityID: vPub(e.key)})
	}
	res := &c18Result{}
	res.already, _ = bs.HasFinalisedBlock(c.round, c.setID)
	ti, known := tree.index[c.target.Hash]
	res.targetOK = known && uint(c.target.Number) == tree.number[ti]
	res.descHead = known && tree.isAncestorOrEqual(c.head, ti)

	// ---- oracle: |S|
	type tally struct {
		votes   map[Vote]bool
		onChain bool
	}
	isAuthority := map[int]bool{}
	for _, k := range c.authorityKeys() {
		isAuthority[k] = true
	}
	per := map[ed25519.PublicKeyBytes]*tally{}
	if c.commitSet == c.setID {
		for _, e := range c.entries {
			if !isAuthority[e.key] {
				continue // not a current authority
			}
			pub := vPub(e.key)
			payload := vFullVotePayload(precommit, e.vote, c.round, c.commitSet)
			if !stded.Verify(stded.PublicKey(pub[:]), payload, e.sig[:]) {
				continue
			}
			p := per[pub]
			if p == nil {
				p = &tally{votes: map[Vote]bool{}}
				per[pub] = p
			}
			p.votes[e.vote] = true
			if bi, ok := tree.index[e.vote.Hash]; ok && res.targetOK && uint(e.vote.Number) == tree.number[bi] &&
				tree.isAncestorOrEqual(ti, bi) {
				p.onChain = true
			}
		}
	}
	for _, p := range per {
		if p.onChain || len(p.votes) >= 2 {
			res.s++
		}
	}

	callsBefore := len(bs.finalCalls())
	res.err = env.svc.handleCommitMessage(cm)
	res.calls = bs.finalCalls()[callsBefore:]
	return res
}

// c18Judge returns a non-empty string when the outcome violates the property.
func c18Judge(c *c18Case, r *c18Result) string {
	if len(r.calls) > 0 {
		if len(r.calls) != 1 || r.calls[0].hash != c.target.Hash || r.calls[0].round != c.round || r.calls[0].setID != c.setID {
			return fmt.Sprintf("unexpected SetFinalisedHash calls %v", r.calls)
		}
		if r.already {
			return "round already had a finalised block, yet the commit finalised again"
		}
		if !r.targetOK {
			return "finalised a target that is unknown or carries a wrong number"
		}
		if 3*r.s <= 2*c.n {
			return fmt.Sprintf("commit finalised its target with |S|=%d of n=%d authorities (3|S| <= 2n)", r.s, c.n)
		}
		if r.err != nil {
			return fmt.Sprintf("target finalised but an error was returned: %v", r.err)
		}
		return ""
	}
	if r.err == nil && !r.already {
		return "commit was not finalised but no error was returned"
	}
	return ""
}

func c18Need(n int) int { return 2*n/3 + 1 }

func c18Gen(t *rapid.T) *c18Case {
	c := &c18Case{}
	c.n = rapid.SampledFrom([]int{1, 2, 3, 3, 4, 4, 5, 6, 6, 7, 8, 9, 10}).Draw(t, "n")
	tree := vGenTree(t, 2, 10)
	c.parent = tree.parent
	if rapid.Bool().Draw(t, "headGenesis") {
		c.head = 0
	} else {
		c.head = rapid.IntRange(0, tree.size()-1).Draw(t, "head")
	}
	if c.head != 0 {
		c.headRound = 1
	}
	c.round = uint64(rapid.IntRange(2, 4).Draw(t, "round")) //nolint:gosec
	if rapid.IntRange(0, 24).Draw(t, "alreadyFinalisedRound") == 0 {
		c.round = c.headRound
	}
	c.setID = rapid.SampledFrom([]uint64{0, 0, 1, 5}).Draw(t, "setID")
	c.commitSet = c.setID
	if rapid.IntRange(0, 11).Draw(t, "wrongCommitSet") == 0 {
		c.commitSet = c.setID + 1
	}
	c18GenCommit(t, tree, c)
	return c
}

// c18GenCommit draws target and entries of one commit for the current
// authority set c.authorityKeys(), finalised head c.head, commit round c.round
// and set ids c.setID / c.commitSet (all filled in by the caller).
func c18GenCommit(t *rapid.T, tree *vTree, c *c18Case) {
	// target
	var ti int
	if rapid.IntRange(0, 6).Draw(t, "anyTarget") == 0 {
		ti = rapid.IntRange(0, tree.size()-1).Draw(t, "target")
	} else {
		sub := tree.subtree(c.head)
		ti = sub[rapid.IntRange(0, len(sub)-1).Draw(t, "target")]
	}
	c.target = tree.vote(ti)
	switch rapid.IntRange(0, 39).Draw(t, "badTarget") {
	case 0:
		c.target.Number++
	case 1:
		c.target.Hash = common.Hash{0xde, 0xad, byte(ti)}
	}
	subT := tree.subtree(ti)
	var offT []int // known blocks that are neither in subtree(target) nor ancestors of it
	var ancT []int // strict ancestors
	for i := 0; i < tree.size(); i++ {
		switch {
		case i != ti && tree.isAncestorOrEqual(i, ti):
			ancT = append(ancT, i)
		case !tree.isAncestorOrEqual(ti, i):
			offT = append(offT, i)
		}
	}
	notOn := append(append([]int{}, ancT...), offT...) // not counting for the target

	sign := func(key int, v Vote, round, set uint64) [64]byte { return vSignVote(key, precommit, v, round, set) }
	good := func(kind string, key int, blk int) c18Entry {
		v := tree.vote(blk)
		return c18Entry{kind: kind, key: key, vote: v, sig: sign(key, v, c.round, c.commitSet)}
	}
	pick := func(list []int, label string) int { return list[rapid.IntRange(0, len(list)-1).Draw(t, label)] }

	// honest part: k distinct authorities with a valid precommit on target-or-descendant
	need := c18Need(c.n)
	var k int
	if rapid.IntRange(0, 4).Draw(t, "uniformK") == 0 {
		k = rapid.IntRange(0, c.n).Draw(t, "k")
	} else {
		k = need - 2 + rapid.IntRange(0, 3).Draw(t, "kOff")
	}
	// "pseudo-equivocator" mode: few genuine supporters, and about need-k further
	// authorities that are each listed with two different precommits for existing
	// off-target blocks of which at most one is correctly signed
	pseudoMode := len(notOn) >= 2 && rapid.IntRange(0, 3).Draw(t, "pseudoMode") == 0
	if pseudoMode {
		k = rapid.SampledFrom([]int{0, 0, 1, 1, 1, 2, 3}).Draw(t, "kFew")
		if k > need-2 {
			k = need - 2
		}
	}
	if k < 0 {
		k = 0
	}
	if k > c.n {
		k = c.n
	}
	c.honestK = k
	members := append([]int{}, c.authorityKeys()...)
	members = rapid.Permutation(members).Draw(t, "members")
	for _, m := range members[:k] {
		c.entries = append(c.entries, good("ok", m, pick(subT, "okBlock")))
	}
	pool := members[k:] // authorities without an entry so far
	nextMember := func() int {
		if len(pool) > 0 {
			m := pool[0]
			pool = pool[1:]
			return m
		}
		return c.authorityKeys()[rapid.IntRange(0, c.n-1).Draw(t, "reuseMember")]
	}

	kinds := []string{"ancestor", "otherfork", "wrongRound", "wrongSet", "garbage", "sigOther", "dup", "equivOnOn", "equivOnOff",
		"equivOffOff", "twiceBadSig", "offPlusBad", "nonAuth1", "nonAuth2", "nonAuth2", "unknownBlock", "wrongNumber", "equivUnknown"}
	if len(c.former) > 0 {
		kinds = append(kinds, "former", "former", "former", "formerMany", "formerMany", "formerTwice")
	}
	na := rapid.SampledFrom([]int{0, 0, 0, 1, 1, 1, 2, 2, 3, 4}).Draw(t, "nAdversarial")
	garbage := func(label string) [64]byte {
		var s [64]byte
		b := rapid.SliceOfN(rapid.Byte(), 64, 64).Draw(t, label)
		copy(s[:], b)
		return s
	}
	// pseudoEquiv lists key twice, for two different existing blocks that are not
	// the target or a descendant (numbers correct); at most one entry is correctly signed
	pseudoEquiv := func(key int) {
		i1 := rapid.IntRange(0, len(notOn)-1).Draw(t, "pseudoBlk1")
		i2 := (i1 + 1 + rapid.IntRange(0, len(notOn)-2).Draw(t, "pseudoBlk2")) % len(notOn)
		e1, e2 := good("pseudoEquiv", key, notOn[i1]), good("pseudoEquiv", key, notOn[i2])
		switch rapid.IntRange(0, 5).Draw(t, "pseudoShape") {
		case 0, 1: // genuine precommit + a second vote carrying the same signature bytes
			e2.sig = e1.sig
		case 2: // genuine precommit + garbage signature
			e2.sig = garbage("sig")
		case 3: // genuine precommit + second vote signed for another round / set
			if rapid.Bool().Draw(t, "otherRound") {
				e2.sig = sign(key, e2.vote, c.round+1, c.commitSet)
			} else {
				e2.sig = sign(key, e2.vote, c.round, c.commitSet+1)
			}
		case 4: // neither entry correctly signed
			e1.sig, e2.sig = garbage("sig"), garbage("sig2")
		case 5: // both signatures swapped (each is a genuine signature, over the other vote)
			e1.sig, e2.sig = e2.sig, e1.sig
		}
		c.entries = append(c.entries, e1, e2)
	}
	if len(notOn) >= 2 {
		kinds = append(kinds, "pseudoEquiv", "pseudoEquivOutsider")
	}
	if pseudoMode {
		g := need - k + rapid.IntRange(-1, 1).Draw(t, "pseudoCount")
		for i := 0; i < g; i++ {
			if len(pool) > 0 {
				pseudoEquiv(nextMember())
			} else if i < g-1 || rapid.Bool().Draw(t, "outsiderFill") {
				// no authority left: outsiders (correctly signed by a non-member)
				i1 := rapid.IntRange(0, len(notOn)-1).Draw(t, "pseudoBlk1")
				i2 := (i1 + 1 + rapid.IntRange(0, len(notOn)-2).Draw(t, "pseudoBlk2")) % len(notOn)
				key := c18NonMemberBase + 10 + i
				c.entries = append(c.entries, good("pseudoEquivOutsider", key, notOn[i1]), good("pseudoEquivOutsider", key, notOn[i2]))
			}
		}
		if g > 0 {
			c.adversarial++
		}
	}
	for a := 0; a < na; a++ {
		kind := rapid.SampledFrom(kinds).Draw(t, "kind")
		before := len(c.entries)
		switch kind {
		case "ancestor":
			if len(ancT) > 0 {
				c.entries = append(c.entries, good(kind, nextMember(), pick(ancT, "blk")))
			}
		case "otherfork":
			if len(offT) > 0 {
				c.entries = append(c.entries, good(kind, nextMember(), pick(offT, "blk")))
			}
		case "wrongRound":
			m, v := nextMember(), tree.vote(pick(subT, "blk"))
			c.entries = append(c.entries, c18Entry{kind, m, v, sign(m, v, c.round+1, c.commitSet)})
		case "wrongSet":
			m, v := nextMember(), tree.vote(pick(subT, "blk"))
			c.entries = append(c.entries, c18Entry{kind, m, v, sign(m, v, c.round, c.commitSet+1)})
		case "garbage":
			m, v := nextMember(), tree.vote(pick(subT, "blk"))
			c.entries = append(c.entries, c18Entry{kind, m, v, garbage("sig")})
		case "sigOther":
			m, v := nextMember(), tree.vote(pick(subT, "blk"))
			other := v
			other.Number += 7
			if len(notOn) > 0 {
				other = tree.vote(pick(notOn, "otherBlk"))
			}
			c.entries = append(c.entries, c18Entry{kind, m, v, sign(m, other, c.round, c.commitSet)})
		case "dup":
			if len(c.entries) > 0 {
				e := c.entries[rapid.IntRange(0, len(c.entries)-1).Draw(t, "dupOf")]
				e.kind = "dup(" + e.kind + ")"
				times := rapid.IntRange(1, 2).Draw(t, "dupTimes")
				for i := 0; i < times; i++ {
					c.entries = append(c.entries, e)
				}
			}
		case "equivOnOn":
			if len(subT) >= 2 {
				m := nextMember()
				b1 := pick(subT, "blk")
				b2 := pick(subT, "blk2")
				if b1 != b2 {
					c.entries = append(c.entries, good(kind, m, b1), good(kind, m, b2))
				}
			}
		case "equivOnOff":
			if len(notOn) > 0 {
				m := nextMember()
				c.entries = append(c.entries, good(kind, m, pick(subT, "blk")), good(kind, m, pick(notOn, "blk2")))
			}
		case "equivOffOff":
			if len(notOn) >= 2 {
				m := nextMember()
				b1 := pick(notOn, "blk")
				b2 := pick(notOn, "blk2")
				if b1 != b2 {
					c.entries = append(c.entries, good(kind, m, b1), good(kind, m, b2))
				}
			}
		case "twiceBadSig": // one authority listed twice, neither entry correctly signed
			m := nextMember()
			v1, v2 := tree.vote(pick(subT, "blk")), tree.vote(rapid.IntRange(0, tree.size()-1).Draw(t, "blk2"))
			c.entries = append(c.entries, c18Entry{kind, m, v1, garbage("sig")}, c18Entry{kind, m, v2, sign(m, v2, c.round+1, c.commitSet)})
		case "offPlusBad": // one valid precommit that does not count plus a badly signed second entry
			if len(notOn) > 0 {
				m := nextMember()
				v2 := tree.vote(pick(subT, "blk2"))
				c.entries = append(c.entries, good(kind, m, pick(notOn, "blk")), c18Entry{kind, m, v2, garbage("sig")})
			}
		case "former": // a former authority, correctly signed for this round and set
			c.entries = append(c.entries, good(kind, pick(c.former, "former"), pick(subT, "blk")))
		case "formerMany": // every former authority (or a drawn number of them) precommits the target
			cnt := rapid.IntRange(1, len(c.former)).Draw(t, "formerCount")
			for _, key := range c.former[:cnt] {
				c.entries = append(c.entries, good(kind, key, pick(subT, "blk")))
			}
		case "formerTwice": // a former authority with two different correctly signed votes
			key := pick(c.former, "former")
			c.entries = append(c.entries, good(kind, key, pick(subT, "blk")), good(kind, key, rapid.IntRange(0, tree.size()-1).Draw(t, "blk2")))
		case "pseudoEquiv":
			pseudoEquiv(nextMember())
		case "pseudoEquivOutsider": // a non-member listed with two different off-target votes, both signed by itself
			key := c18NonMemberBase + rapid.IntRange(0, 2).Draw(t, "outsider")
			i1 := rapid.IntRange(0, len(notOn)-1).Draw(t, "pseudoBlk1")
			i2 := (i1 + 1 + rapid.IntRange(0, len(notOn)-2).Draw(t, "pseudoBlk2")) % len(notOn)
			c.entries = append(c.entries, good(kind, key, notOn[i1]), good(kind, key, notOn[i2]))
		case "nonAuth1":
			key := c18NonMemberBase + rapid.IntRange(0, 2).Draw(t, "outsider")
			c.entries = append(c.entries, good(kind, key, pick(subT, "blk")))
		case "nonAuth2":
			key := c18NonMemberBase + rapid.IntRange(0, 2).Draw(t, "outsider")
			b2 := rapid.IntRange(0, tree.size()-1).Draw(t, "blk2")
			e1, e2 := good(kind, key, pick(subT, "blk")), good(kind, key, b2)
			if e1.vote == e2.vote {
				e2.sig = garbage("sig") // same vote listed with two different signatures
			}
			c.entries = append(c.entries, e1, e2)
		case "unknownBlock":
			m := nextMember()
			v := Vote{Hash: common.Hash{0xab, byte(a)}, Number: uint32(rapid.IntRange(0, 9).Draw(t, "num"))} //nolint:gosec
			c.entries = append(c.entries, c18Entry{kind, m, v, sign(m, v, c.round, c.commitSet)})
		case "wrongNumber":
			m := nextMember()
			v := tree.vote(pick(subT, "blk"))
			v.Number += uint32(rapid.IntRange(1, 2).Draw(t, "numOff")) //nolint:gosec
			c.entries = append(c.entries, c18Entry{kind, m, v, sign(m, v, c.round, c.commitSet)})
		case "equivUnknown": // two different correctly signed precommits, one of them for an unknown block
			if len(notOn) > 0 {
				m := nextMember()
				v := Vote{Hash: common.Hash{0xac, byte(a)}, Number: 3}
				c.entries = append(c.entries, good(kind, m, pick(notOn, "blk")), c18Entry{kind, m, v, sign(m, v, c.round, c.commitSet)})
			}
		}
		if len(c.entries) > before {
			c.adversarial++
		}
	}
	if len(c.entries) > 1 {
		c.entries = rapid.Permutation(c.entries).Draw(t, "order")
	}
}

func TestC18Commit(t *testing.T) {
	defer kit.Flush()
	kit.Note("rule", c18Rule)
	rapid.Check(t, func(t *rapid.T) {
		c := c18Gen(t)
		r, tree, err := c18Eval(c)
		if err != nil {
			t.Fatalf("harness: %v", err)
		}
		descr := c.describe(tree)
		if msg := c18Judge(c, r); msg != "" {
			t.Fatalf("%s\ncase: %s\nerr=%v calls=%v", msg, descr, r.err, r.calls)
		}
		need := c18Need(c.n)
		labels := []string{fmt.Sprintf("n=%d", c.n)}
		accepted := len(r.calls) > 0
		if accepted {
			labels = append(labels, "accepted")
		} else {
			labels = append(labels, "rejected")
			if 3*r.s > 2*c.n {
				labels = append(labels, "rejected-with-supermajority")
			}
		}
		if d := r.s - need; d >= -2 && d <= 1 {
			labels = append(labels, fmt.Sprintf("S-need=%d", d))
		}
		honestFull := c.adversarial == 0 && r.targetOK && r.descHead && !r.already && c.commitSet == c.setID && c.honestK >= need
		if honestFull && accepted {
			labels = append(labels, "honest-supermajority-accepted")
		} else if honestFull {
			labels = append(labels, "honest-supermajority-REJECTED")
		}
		if r.already {
			labels = append(labels, "round-already-finalised")
		}
		if !r.descHead {
			labels = append(labels, "target-not-descending-from-head")
		}
		seen := map[string]bool{}
		for _, e := range c.entries {
			k := e.kind
			if strings.HasPrefix(k, "dup(") {
				k = "dup"
			}
			if !seen[k] {
				seen[k] = true
				labels = append(labels, "entry:"+k)
			}
		}
		d := r.s - need
		nontrivial := (d >= -1 && d <= 1) || c.adversarial > 0
		kit.Case(descr, nontrivial, labels...)
	})
}

// TestC18Regressions: shrunk failures of TestC18Commit on the pinned tree
// (repaired by fixes/01 and fixes/02), kept as deterministic cases.
func TestC18Regressions(t *testing.T) {
	defer kit.Flush()
	chain2 := []int{-1, 0} // genesis <- b1
	mk := func(n int, parent []int, target int, mkEntries func(c *c18Case, tree *vTree)) *c18Case {
		tree := newVTree(parent)
		c := &c18Case{n: n, parent: parent, round: 2, target: tree.vote(target)}
		mkEntries(c, tree)
		return c
	}
	add := func(c *c18Case, kind string, key int, v Vote, signRound uint64) {
		c.entries = append(c.entries, c18Entry{kind, key, v, vSignVote(key, precommit, v, signRound, c.commitSet)})
	}
	cases := map[string]*c18Case{
		"empty-commit-n1": mk(1, chain2, 0, func(c *c18Case, tree *vTree) {}),
		"two-of-three": mk(3, chain2, 1, func(c *c18Case, tree *vTree) {
			add(c, "ok", 0, tree.vote(1), 2)
			add(c, "ok", 1, tree.vote(1), 2)
		}),
		"two-of-four": mk(4, chain2, 1, func(c *c18Case, tree *vTree) {
			add(c, "ok", 2, tree.vote(1), 2)
			add(c, "ok", 3, tree.vote(1), 2)
		}),
		"duplicate-entry": mk(2, chain2, 0, func(c *c18Case, tree *vTree) {
			add(c, "ok", 0, tree.vote(0), 2)
			add(c, "dup(ok)", 0, tree.vote(0), 2)
		}),
		"unverified-equivocator": mk(2, chain2, 1, func(c *c18Case, tree *vTree) {
			add(c, "ok", 0, tree.vote(1), 2)
			add(c, "ancestor", 1, tree.vote(0), 2)
			add(c, "wrongRound", 1, tree.vote(1), 3)
		}),
		"outsider-listed-twice": mk(3, chain2, 1, func(c *c18Case, tree *vTree) {
			add(c, "ok", 0, tree.vote(1), 2)
			add(c, "ok", 1, tree.vote(1), 2)
			add(c, "nonAuth2", c18NonMemberBase, tree.vote(1), 2)
			add(c, "nonAuth2", c18NonMemberBase, tree.vote(0), 2)
		}),
		"twice-garbage": mk(3, chain2, 1, func(c *c18Case, tree *vTree) {
			add(c, "ok", 0, tree.vote(1), 2)
			add(c, "ok", 1, tree.vote(1), 2)
			c.entries = append(c.entries, c18Entry{"twiceBadSig", 2, tree.vote(1), [64]byte{1}}, c18Entry{"twiceBadSig", 2, tree.vote(1), [64]byte{2}})
		}),
		// forged commit for the fork block Y3 = b6 (X chain b1<-b2<-b3, Y chain b4<-b5<-b6), n=4: the Byzantine
		// authority 3 precommits Y3; authorities 0 and 1 are listed with their genuine precommit for X3 and a
		// second "precommit" for X2 that re-uses the same signature bytes (does not verify): |S| = 1 of 4
		"forged-equivocations-off-target": mk(4, []int{-1, 0, 1, 2, 0, 4, 5}, 6, func(c *c18Case, tree *vTree) {
			add(c, "ok", 3, tree.vote(6), 2)
			for _, k := range []int{0, 1} {
				add(c, "pseudoEquiv", k, tree.vote(3), 2)
				c.entries = append(c.entries, c18Entry{"pseudoEquiv", k, tree.vote(2), c.entries[len(c.entries)-1].sig})
			}
		}),
		// the same with two unsigned entries per authority
		"forged-equivocations-unsigned": mk(4, []int{-1, 0, 1, 2, 0, 4, 5}, 6, func(c *c18Case, tree *vTree) {
			add(c, "ok", 3, tree.vote(6), 2)
			for _, k := range []int{0, 1} {
				c.entries = append(c.entries, c18Entry{"pseudoEquiv", k, tree.vote(3), [64]byte{byte(k + 1)}},
					c18Entry{"pseudoEquiv", k, tree.vote(2), [64]byte{byte(k + 7)}})
			}
		}),
		// honest supermajority (3 of 3): acceptance is measured, not required
		"honest-three-of-three": mk(3, chain2, 1, func(c *c18Case, tree *vTree) {
			add(c, "ok", 0, tree.vote(1), 2)
			add(c, "ok", 1, tree.vote(1), 2)
			add(c, "ok", 2, tree.vote(1), 2)
		}),
	}
	for name, c := range cases {
		r, tree, err := c18Eval(c)
		if err != nil {
			t.Fatalf("%s: harness: %v", name, err)
		}
		if msg := c18Judge(c, r); msg != "" {
			t.Errorf("%s: %s\ncase: %s\nerr=%v", name, msg, c.describe(tree), r.err)
		}
		t.Logf("%s: |S|=%d of %d, finalised=%v err=%v", name, r.s, c.n, len(r.calls) > 0, r.err)
	}
}

// ---------------------------------------------------------------------------
// commits on ONE service across an authority set change

const c18SetChangeRule = "history on ONE Service: 1-3 generated commits (all kinds of TestC18Commit) under set N with 1-7 authorities, then an authority set change to a generated set N+1 " +
	"(overlapping / disjoint / larger / smaller / same / one rotated) published by the grandpa state and applied by Service.initiateRound -> updateAuthorities as the round loop does, then 1-3 generated commits for set N+1 " +
	"whose entries additionally mix in former authorities correctly signed for the new round and set id (once, many, twice), plus one honest full commit of the new set at a drawn position; " +
	"oracle of TestC18Commit evaluated against the set that is current at the time of each commit, and the honest full commit of the new set must be accepted; " +
	"non-trivial = membership changed and a post-change commit carries former-authority entries or has |S| within 1 of need; distinct by (sets, tree, commit list)"

const c18NewKeyBase = 20 // key numbers of authorities that only exist in the new set

// c18GenNewSet draws the membership of set N+1 from the membership of set N.
func c18GenNewSet(t *rapid.T, keysA []int) (mode string, keysB []int) {
	mode = rapid.SampledFrom([]string{"overlap", "overlap", "disjoint", "disjoint", "larger", "smaller", "rotateOne", "same"}).Draw(t, "setChange")
	perm := rapid.Permutation(append([]int{}, keysA...)).Draw(t, "oldOrder")
	fresh := func(cnt int) []int {
		out := make([]int, cnt)
		for i := range out {
			out[i] = c18NewKeyBase + i
		}
		return out
	}
	switch mode {
	case "overlap":
		keep := rapid.IntRange(1, len(perm)).Draw(t, "keep")
		keysB = append(append([]int{}, perm[:keep]...), fresh(rapid.IntRange(1, 3).Draw(t, "added"))...)
	case "disjoint":
		keysB = fresh(rapid.IntRange(1, 7).Draw(t, "newSize"))
	case "larger":
		keysB = append(append([]int{}, perm...), fresh(rapid.IntRange(1, 4).Draw(t, "added"))...)
	case "smaller":
		if len(perm) < 2 {
			mode, keysB = "same", perm
		} else {
			keysB = append([]int{}, perm[:rapid.IntRange(1, len(perm)-1).Draw(t, "keep")]...)
		}
	case "rotateOne":
		keysB = append(append([]int{}, perm[1:]...), c18NewKeyBase)
	default:
		keysB = perm
	}
	if len(keysB) > 1 {
		keysB = rapid.Permutation(keysB).Draw(t, "newOrder")
	}
	return mode, keysB
}

func c18Minus(a, b []int) []int {
	in := map[int]bool{}
	for _, x := range b {
		in[x] = true
	}
	var out []int
	for _, x := range a {
		if !in[x] {
			out = append(out, x)
		}
	}
	return out
}

// c18HonestFull builds a commit in which every authority of keys precommits
// the target (a block at or below the finalised head's subtree) or a descendant.
func c18HonestFull(t *rapid.T, tree *vTree, c *c18Case) {
	sub := tree.subtree(c.head)
	ti := sub[rapid.IntRange(0, len(sub)-1).Draw(t, "fullTarget")]
	c.target = tree.vote(ti)
	subT := tree.subtree(ti)
	for _, key := range c.authorityKeys() {
		v := tree.vote(subT[rapid.IntRange(0, len(subT)-1).Draw(t, "fullBlk")])
		c.entries = append(c.entries, c18Entry{"ok", key, v, vSignVote(key, precommit, v, c.round, c.commitSet)})
	}
	c.honestK = c.n
	if len(c.entries) > 1 {
		c.entries = rapid.Permutation(c.entries).Draw(t, "order")
	}
}

func TestC18CommitAcrossSetChange(t *testing.T) {
	defer kit.Flush()
	kit.Note("rule-setchange", c18SetChangeRule)
	rapid.Check(t, func(t *rapid.T) {
		nA := rapid.SampledFrom([]int{1, 2, 3, 3, 4, 4, 5, 6, 7}).Draw(t, "nOld")
		keysA := make([]int, nA)
		for i := range keysA {
			keysA[i] = i
		}
		mode, keysB := c18GenNewSet(t, keysA)
		tree := vGenTree(t, 3, 12)
		head, headRound := 0, uint64(0)
		if rapid.IntRange(0, 3).Draw(t, "headNotGenesis") == 0 {
			head, headRound = rapid.IntRange(0, tree.size()/2).Draw(t, "head"), 1
		}
		setN := rapid.SampledFrom([]uint64{0, 0, 2}).Draw(t, "setID")
		bs := newVBlockState(tree, head, headRound, setN, tree.size()-1)
		env, err := vNewService(bs, keysA, 0, setN)
		if err != nil {
			t.Fatalf("harness: %v", err)
		}
		if err := env.svc.initiateRound(); err != nil {
			t.Fatalf("harness: initiateRound: %v", err)
		}
		var descr strings.Builder
		fmt.Fprintf(&descr, "change=%s old=%v new=%v tree=%s;", mode, keysA, keysB, tree.describe())
		labels := []string{"change:" + mode, fmt.Sprintf("nOld=%d", nA), fmt.Sprintf("nNew=%d", len(keysB))}
		nontrivial := false

		// one commit against the current set; full = honest full commit that must be accepted
		step := func(phase string, keys, former []int, setID, round uint64, full bool) {
			c := &c18Case{n: len(keys), keys: keys, former: former, parent: tree.parent, setID: setID, commitSet: setID, round: round}
			bs.mu.Lock()
			c.head, c.headRound = bs.finalHead, bs.highRound
			bs.mu.Unlock()
			if full {
				c18HonestFull(t, tree, c)
			} else {
				switch rapid.IntRange(0, 11).Draw(t, "commitSetOff") {
				case 0:
					c.commitSet = setID + 1
				case 1:
					if setID > 0 {
						c.commitSet = setID - 1 // a commit still carrying the previous set id
					}
				}
				c18GenCommit(t, tree, c)
			}
			r := c18Run(env, tree, c)
			fmt.Fprintf(&descr, " [%s%s] %s;", phase, map[bool]string{true: " honest-full", false: ""}[full], c.describe(tree))
			if msg := c18Judge(c, r); msg != "" {
				t.Fatalf("%s commit: %s\nhistory: %s\nerr=%v calls=%v", phase, msg, descr.String(), r.err, r.calls)
			}
			accepted := len(r.calls) > 0
			if full && !accepted && os.Getenv("VERIF_C18_NO_COMPLETENESS") == "" { // switch: sensitivity measurements of the one-directional oracle alone
				t.Fatalf("%s: honest commit signed by every one of the %d current authorities (set id %d) for a descendant of the finalised head in a fresh round was rejected: %v\nhistory: %s",
					phase, c.n, setID, r.err, descr.String())
			}
			if accepted {
				labels = append(labels, phase+":accepted")
			} else {
				labels = append(labels, phase+":rejected")
			}
			if full {
				labels = append(labels, phase+":honest-full-accepted")
				return
			}
			d := r.s - c18Need(c.n)
			hasFormer := false
			for _, e := range c.entries {
				if strings.HasPrefix(e.kind, "former") {
					hasFormer = true
				}
			}
			if hasFormer {
				labels = append(labels, phase+":former-authority-entries")
			}
			if phase == "after" && mode != "same" && (hasFormer || (d >= -1 && d <= 1)) {
				nontrivial = true
			}
		}

		round := headRound + 1
		for i, m := 0, rapid.IntRange(1, 3).Draw(t, "commitsBefore"); i < m; i++ {
			step("before", keysA, nil, setN, round, false)
			if rapid.IntRange(0, 7).Draw(t, "sameRoundAgain") > 0 {
				round++
			}
		}

		// the set change N -> N+1 becomes visible in the grandpa state; the round
		// loop applies it at the start of the next round (initiateRound -> updateAuthorities)
		env.gs.changeSet(setN+1, vVoters(keysB))
		if err := env.svc.initiateRound(); err != nil {
			t.Fatalf("harness: initiateRound after the set change: %v", err)
		}
		former := c18Minus(keysA, keysB)
		round = 1
		m := rapid.IntRange(1, 3).Draw(t, "commitsAfter")
		fullAt := rapid.IntRange(0, m).Draw(t, "honestFullAt")
		for i := 0; i <= m; i++ {
			if i == fullAt {
				// the honest full commit needs a round that has no finalised block yet
				for {
					has, _ := bs.HasFinalisedBlock(round, setN+1)
					if !has {
						break
					}
					round++
				}
				step("after", keysB, former, setN+1, round, true)
				round++
			}
			if i == m {
				break
			}
			step("after", keysB, former, setN+1, round, false)
			if rapid.IntRange(0, 7).Draw(t, "sameRoundAgain") > 0 {
				round++
			}
		}
		kit.Case(descr.String(), nontrivial, labels...)
	})
}

// TestC18SetChangeRegressions: deterministic history for membership that must
// follow the authority set change.
func TestC18SetChangeRegressions(t *testing.T) {
	defer kit.Flush()
	parent := []int{-1, 0, 1, 2}
	tree := newVTree(parent)
	keysA, keysB := []int{0, 1, 2}, []int{20, 21, 22}
	bs := newVBlockState(tree, 0, 0, 0, 3)
	env, err := vNewService(bs, keysA, 0, 0)
	if err != nil {
		t.Fatalf("harness: %v", err)
	}
	if err := env.svc.initiateRound(); err != nil {
		t.Fatalf("harness: %v", err)
	}
	commit := func(name string, keys, signers []int, setID, round uint64, target int, mustAccept bool) {
		c := &c18Case{n: len(keys), keys: keys, parent: parent, setID: setID, commitSet: setID, round: round, target: tree.vote(target), head: bs.finalHead}
		for _, k := range signers {
			c.entries = append(c.entries, c18Entry{"ok", k, c.target, vSignVote(k, precommit, c.target, round, setID)})
		}
		r := c18Run(env, tree, c)
		if msg := c18Judge(c, r); msg != "" {
			t.Errorf("%s: %s (err=%v)", name, msg, r.err)
		}
		if mustAccept && len(r.calls) == 0 {
			t.Errorf("%s: honest full commit of the current authority set was rejected: %v", name, r.err)
		}
		t.Logf("%s: |S|=%d of %d finalised=%v err=%v", name, r.s, c.n, len(r.calls) > 0, r.err)
	}
	commit("old set, full commit for b1", keysA, keysA, 0, 1, 1, true)
	env.gs.changeSet(1, vVoters(keysB))
	if err := env.svc.initiateRound(); err != nil {
		t.Fatalf("harness: %v", err)
	}
	commit("new set current, commit signed by the three former authorities for b2", keysB, keysA, 1, 1, 2, false)
	commit("new set current, full commit of the new authorities for b2", keysB, keysB, 1, 2, 2, true)
}
