// Shared harness fakes for the lib/grandpa checks (C18, C21, later C22).
//
// Everything here is a pure in-memory model: no database, no network, no
// goroutines, no timers, no RNG. See NOTES.md of C18 ("How to construct a
// Service") for the way the pieces fit together.
//
//	vTree          rooted block tree (parent[] array) with real types.Header values
//	vBlockState    grandpa.BlockState over a vTree: ancestry, finalised head, recorded SetFinalisedHash calls
//	vGrandpaState  grandpa.GrandpaState: set id, authorities, stored justifications, one optional pending change
//	vNetwork       grandpa.Network that records gossiped / sent messages
//	vTelemetry     no-op
//	vKey(i)        deterministic ed25519 key pair number i (cached)
//	vSignVote      signature over the FullVote payload, encoded by hand (independent of pkg/scale)
//	vNewService    NewService(...) over the fakes, silent logger
package grandpa

import (
	"encoding/binary"
	"encoding/json"
	"errors"
	"fmt"
	"io"
	"sync"

	"github.com/ChainSafe/gossamer/dot/network"
	"github.com/ChainSafe/gossamer/dot/state"
	"github.com/ChainSafe/gossamer/dot/types"
	"github.com/ChainSafe/gossamer/internal/database"
	"github.com/ChainSafe/gossamer/internal/log"
	"github.com/ChainSafe/gossamer/lib/blocktree"
	"github.com/ChainSafe/gossamer/lib/common"
	"github.com/ChainSafe/gossamer/lib/crypto/ed25519"
	"github.com/ChainSafe/gossamer/lib/runtime"
	"github.com/libp2p/go-libp2p/core/peer"
	"github.com/libp2p/go-libp2p/core/protocol"
	"pgregory.net/rapid"
)

// ---------------------------------------------------------------------------
// block tree model

// vTree is a rooted tree of blocks. Block 0 is the genesis block (number 0);
// parent[i] < i for i > 0. Headers are real types.Header values (hash =
// BLAKE2b of the SCALE encoding); siblings differ in StateRoot.
type vTree struct {
	parent  []int
	number  []uint
	headers []*types.Header
	hashes  []common.Hash
	index   map[common.Hash]int
}

// newVTree builds the tree for a parent array (parent[0] is ignored).
func newVTree(parent []int) *vTree {
	t := &vTree{index: map[common.Hash]int{}}
	for i := range parent {
		p := -1
		var ph common.Hash
		var num uint
		if i > 0 {
			p = parent[i]
			if p < 0 || p >= i {
				panic("vTree: parent[i] must be in [0,i)")
			}
			ph = t.hashes[p]
			num = t.number[p] + 1
		}
		var sr common.Hash
		sr[0], sr[1], sr[31] = 0xb1, byte(i), byte(i>>8)
		h := types.NewHeader(ph, sr, common.Hash{}, num, types.NewDigest())
		t.parent = append(t.parent, p)
		t.number = append(t.number, num)
		t.headers = append(t.headers, h)
		t.hashes = append(t.hashes, h.Hash())
		t.index[h.Hash()] = i
	}
	return t
}

func (t *vTree) size() int { return len(t.parent) }

// isAncestorOrEqual reports whether block a is d or an ancestor of d.
func (t *vTree) isAncestorOrEqual(a, d int) bool {
	for d >= 0 {
		if d == a {
			return true
		}
		if t.number[d] <= t.number[a] {
			return false
		}
		d = t.parent[d]
	}
	return false
}

func (t *vTree) lca(a, b int) int {
	for a != b {
		if t.number[a] >= t.number[b] {
			a = t.parent[a]
		} else {
			b = t.parent[b]
		}
	}
	return a
}

// ancestorAt returns the ancestor-or-self of b with the given number, -1 if
// number > number(b).
func (t *vTree) ancestorAt(b int, number uint) int {
	if number > t.number[b] {
		return -1
	}
	for t.number[b] > number {
		b = t.parent[b]
	}
	return b
}

// subtree returns the blocks that are r or descend from r, ascending index.
func (t *vTree) subtree(r int) []int {
	var out []int
	for i := r; i < t.size(); i++ {
		if t.isAncestorOrEqual(r, i) {
			out = append(out, i)
		}
	}
	return out
}

func (t *vTree) vote(i int) Vote {
	return Vote{Hash: t.hashes[i], Number: uint32(t.number[i])} //nolint:gosec
}

// describe prints the parent array, e.g. "[-,0,1,1,3]".
func (t *vTree) describe() string {
	s := "[-"
	for i := 1; i < t.size(); i++ {
		s += fmt.Sprintf(",%d", t.parent[i])
	}
	return s + "]"
}

// vGenTree draws a tree with nMin..nMax blocks. Parents are biased towards
// recent blocks so that chains get some depth, with forks at every height.
func vGenTree(t *rapid.T, nMin, nMax int) *vTree {
	n := rapid.IntRange(nMin, nMax).Draw(t, "blocks")
	parent := make([]int, n)
	parent[0] = -1
	for i := 1; i < n; i++ {
		if rapid.IntRange(0, 2).Draw(t, "deep") > 0 {
			lo := i - 2
			if lo < 0 {
				lo = 0
			}
			parent[i] = rapid.IntRange(lo, i-1).Draw(t, "parent")
		} else {
			parent[i] = rapid.IntRange(0, i-1).Draw(t, "parent")
		}
	}
	return newVTree(parent)
}

// ---------------------------------------------------------------------------
// BlockState fake

type vFinalCall struct {
	hash         common.Hash
	round, setID uint64
}

// vBlockState implements BlockState over a vTree. All blocks of the tree are
// known unless hidden (hide). It keeps a finalised head, the
// (round,setID)->hash table and records every SetFinalisedHash call.
// Ancestry semantics follow dot/state.BlockState: IsDescendantOf(a, a) is
// true; unknown blocks give an error that wraps database.ErrNotFound;
// LowestCommonAncestor of an unknown block gives blocktree.ErrNodeNotFound.
// Safe for concurrent use (one mutex).
type vBlockState struct {
	mu        sync.Mutex
	tree      *vTree
	hidden    map[int]bool
	finals    map[[2]uint64]common.Hash
	highRound uint64
	highSetID uint64
	finalHead int // index of the highest finalised block
	best      int // index of the best block (head of the best chain)

	setFinalisedCalls []vFinalCall
	justifications    map[common.Hash][]byte
}

// newVBlockState: genesis is finalised for (0,0); if finalHead != 0 that block
// is recorded as finalised in (round,setID). best is the head of the best chain.
func newVBlockState(tree *vTree, finalHead int, round, setID uint64, best int) *vBlockState {
	bs := &vBlockState{
		tree:           tree,
		hidden:         map[int]bool{},
		finals:         map[[2]uint64]common.Hash{{0, 0}: tree.hashes[0]},
		finalHead:      finalHead,
		best:           best,
		justifications: map[common.Hash][]byte{},
	}
	bs.finals[[2]uint64{round, setID}] = tree.hashes[finalHead]
	bs.highRound, bs.highSetID = round, setID
	return bs
}

// hide makes block i (not its descendants) unknown to this block state.
func (bs *vBlockState) hide(i int) { bs.mu.Lock(); bs.hidden[i] = true; bs.mu.Unlock() }

// unhide imports block i.
func (bs *vBlockState) unhide(i int) { bs.mu.Lock(); delete(bs.hidden, i); bs.mu.Unlock() }

func (bs *vBlockState) idx(h common.Hash) int {
	i, ok := bs.tree.index[h]
	if !ok || bs.hidden[i] {
		return -1
	}
	return i
}

// finalCalls returns a copy of the recorded SetFinalisedHash calls.
func (bs *vBlockState) finalCalls() []vFinalCall {
	bs.mu.Lock()
	defer bs.mu.Unlock()
	return append([]vFinalCall(nil), bs.setFinalisedCalls...)
}

func (bs *vBlockState) GenesisHash() common.Hash { return bs.tree.hashes[0] }

func (bs *vBlockState) HasHeader(hash common.Hash) (bool, error) {
	bs.mu.Lock()
	defer bs.mu.Unlock()
	return bs.idx(hash) >= 0, nil
}

func (bs *vBlockState) GetHeader(hash common.Hash) (*types.Header, error) {
	bs.mu.Lock()
	defer bs.mu.Unlock()
	i := bs.idx(hash)
	if i < 0 {
		return nil, database.ErrNotFound
	}
	return bs.tree.headers[i], nil
}

func (bs *vBlockState) GetHeaderByNumber(num uint) (*types.Header, error) {
	bs.mu.Lock()
	defer bs.mu.Unlock()
	i := bs.tree.ancestorAt(bs.best, num)
	if i < 0 || bs.hidden[i] {
		return nil, fmt.Errorf("no block with number %d on the best chain: %w", num, database.ErrNotFound)
	}
	return bs.tree.headers[i], nil
}

func (bs *vBlockState) IsDescendantOf(parent, child common.Hash) (bool, error) {
	if parent == child {
		return true, nil
	}
	bs.mu.Lock()
	defer bs.mu.Unlock()
	c := bs.idx(child)
	if c < 0 {
		return false, fmt.Errorf("getting header: %w", database.ErrNotFound)
	}
	p := bs.idx(parent)
	if p < 0 {
		return false, fmt.Errorf("getting header: %w", database.ErrNotFound)
	}
	return bs.tree.isAncestorOrEqual(p, c), nil
}

func (bs *vBlockState) LowestCommonAncestor(a, b common.Hash) (common.Hash, error) {
	bs.mu.Lock()
	defer bs.mu.Unlock()
	ia, ib := bs.idx(a), bs.idx(b)
	if ia < 0 || ib < 0 {
		return common.Hash{}, blocktree.ErrNodeNotFound
	}
	return bs.tree.hashes[bs.tree.lca(ia, ib)], nil
}

func (bs *vBlockState) HasFinalisedBlock(round, setID uint64) (bool, error) {
	bs.mu.Lock()
	defer bs.mu.Unlock()
	_, ok := bs.finals[[2]uint64{round, setID}]
	return ok, nil
}

func (bs *vBlockState) GetFinalisedHash(round, setID uint64) (common.Hash, error) {
	bs.mu.Lock()
	defer bs.mu.Unlock()
	h, ok := bs.finals[[2]uint64{round, setID}]
	if !ok {
		return common.Hash{}, database.ErrNotFound
	}
	return h, nil
}

func (bs *vBlockState) GetFinalisedHeader(round, setID uint64) (*types.Header, error) {
	h, err := bs.GetFinalisedHash(round, setID)
	if err != nil {
		return nil, err
	}
	return bs.GetHeader(h)
}

func (bs *vBlockState) GetRoundAndSetID() (uint64, uint64) {
	bs.mu.Lock()
	defer bs.mu.Unlock()
	return bs.highRound, bs.highSetID
}

func (bs *vBlockState) GetHighestRoundAndSetID() (uint64, uint64, error) {
	r, s := bs.GetRoundAndSetID()
	return r, s, nil
}

// SetFinalisedHash records the call; like the real block state it refuses
// unknown blocks and a set id lower than the highest one.
func (bs *vBlockState) SetFinalisedHash(hash common.Hash, round, setID uint64) error {
	bs.mu.Lock()
	defer bs.mu.Unlock()
	bs.setFinalisedCalls = append(bs.setFinalisedCalls, vFinalCall{hash, round, setID})
	i := bs.idx(hash)
	if i < 0 {
		return fmt.Errorf("cannot finalise unknown block %s", hash)
	}
	if setID < bs.highSetID {
		return errors.New("set id lower than highest")
	}
	bs.finals[[2]uint64{round, setID}] = hash
	bs.highRound, bs.highSetID = round, setID
	bs.finalHead = i
	return nil
}

func (bs *vBlockState) BestBlockHeader() (*types.Header, error) {
	bs.mu.Lock()
	defer bs.mu.Unlock()
	return bs.tree.headers[bs.best], nil
}

func (bs *vBlockState) BestBlockNumber() (uint, error) {
	bs.mu.Lock()
	defer bs.mu.Unlock()
	return bs.tree.number[bs.best], nil
}

func (bs *vBlockState) BestBlockHash() common.Hash {
	bs.mu.Lock()
	defer bs.mu.Unlock()
	return bs.tree.hashes[bs.best]
}

func (bs *vBlockState) GetHighestFinalisedHeader() (*types.Header, error) {
	bs.mu.Lock()
	defer bs.mu.Unlock()
	return bs.tree.headers[bs.finalHead], nil
}

func (bs *vBlockState) GetImportedBlockNotifierChannel() chan *types.Block {
	return make(chan *types.Block, 1)
}
func (bs *vBlockState) FreeImportedBlockNotifierChannel(chan *types.Block) {}
func (bs *vBlockState) GetFinalisedNotifierChannel() chan *types.FinalisationInfo {
	return make(chan *types.FinalisationInfo, 1)
}
func (bs *vBlockState) FreeFinalisedNotifierChannel(chan *types.FinalisationInfo) {}

func (bs *vBlockState) SetJustification(hash common.Hash, data []byte) error {
	bs.mu.Lock()
	defer bs.mu.Unlock()
	bs.justifications[hash] = data
	return nil
}

func (bs *vBlockState) GetJustification(hash common.Hash) ([]byte, error) {
	bs.mu.Lock()
	defer bs.mu.Unlock()
	j, ok := bs.justifications[hash]
	if !ok {
		return nil, database.ErrNotFound
	}
	return j, nil
}

// GetRuntime: there is no runtime in the harness; equivocation reports fail
// with this error, which the service only logs.
func (bs *vBlockState) GetRuntime(common.Hash) (runtime.Instance, error) {
	return nil, errors.New("harness: no runtime")
}

// ---------------------------------------------------------------------------
// GrandpaState fake

// vGrandpaState implements GrandpaState. pendingAt >= 0 models one pending
// authority change announced in block pendingAt of the tree with effective
// block number pendingEffective (semantics of
// dot/state.GrandpaState.NextGrandpaAuthorityChange).
type vGrandpaState struct {
	mu               sync.Mutex
	tree             *vTree
	setID            uint64
	auths            map[uint64][]types.GrandpaVoter
	latestRound      uint64
	prevotes         map[[2]uint64][]SignedVote
	precommits       map[[2]uint64][]SignedVote
	pendingAt        int
	pendingEffective uint
}

func newVGrandpaState(tree *vTree, setID uint64, voters []types.GrandpaVoter, latestRound uint64) *vGrandpaState {
	return &vGrandpaState{
		tree: tree, setID: setID, latestRound: latestRound,
		auths:      map[uint64][]types.GrandpaVoter{setID: voters},
		prevotes:   map[[2]uint64][]SignedVote{},
		precommits: map[[2]uint64][]SignedVote{},
		pendingAt:  -1,
	}
}

// changeSet models an applied authority set change: the grandpa state now
// reports setID as the current set with the given voters. The service picks it
// up in its next initiateRound (updateAuthorities).
func (gs *vGrandpaState) changeSet(setID uint64, voters []types.GrandpaVoter) {
	gs.mu.Lock()
	defer gs.mu.Unlock()
	gs.setID = setID
	gs.auths[setID] = voters
}

func (gs *vGrandpaState) GetCurrentSetID() (uint64, error) {
	gs.mu.Lock()
	defer gs.mu.Unlock()
	return gs.setID, nil
}

func (gs *vGrandpaState) GetAuthorities(setID uint64) ([]types.GrandpaVoter, error) {
	gs.mu.Lock()
	defer gs.mu.Unlock()
	a, ok := gs.auths[setID]
	if !ok {
		return nil, database.ErrNotFound
	}
	return a, nil
}

func (gs *vGrandpaState) GetSetIDByBlockNumber(uint) (uint64, error) { return gs.GetCurrentSetID() }

func (gs *vGrandpaState) SetLatestRound(round uint64) error {
	gs.mu.Lock()
	defer gs.mu.Unlock()
	gs.latestRound = round
	return nil
}

func (gs *vGrandpaState) GetLatestRound() (uint64, error) {
	gs.mu.Lock()
	defer gs.mu.Unlock()
	return gs.latestRound, nil
}

func (gs *vGrandpaState) SetPrevotes(round, setID uint64, data []SignedVote) error {
	gs.mu.Lock()
	defer gs.mu.Unlock()
	gs.prevotes[[2]uint64{round, setID}] = data
	return nil
}

func (gs *vGrandpaState) SetPrecommits(round, setID uint64, data []SignedVote) error {
	gs.mu.Lock()
	defer gs.mu.Unlock()
	gs.precommits[[2]uint64{round, setID}] = data
	return nil
}

func (gs *vGrandpaState) GetPrevotes(round, setID uint64) ([]SignedVote, error) {
	gs.mu.Lock()
	defer gs.mu.Unlock()
	d, ok := gs.prevotes[[2]uint64{round, setID}]
	if !ok {
		return nil, database.ErrNotFound
	}
	return d, nil
}

func (gs *vGrandpaState) GetPrecommits(round, setID uint64) ([]SignedVote, error) {
	gs.mu.Lock()
	defer gs.mu.Unlock()
	d, ok := gs.precommits[[2]uint64{round, setID}]
	if !ok {
		return nil, database.ErrNotFound
	}
	return d, nil
}

func (gs *vGrandpaState) NextGrandpaAuthorityChange(bestBlockHash common.Hash, bestBlockNumber uint) (uint, error) {
	gs.mu.Lock()
	defer gs.mu.Unlock()
	if gs.pendingAt < 0 {
		return 0, state.ErrNoNextAuthorityChange
	}
	b, ok := gs.tree.index[bestBlockHash]
	if !ok {
		return 0, fmt.Errorf("cannot check ancestry: %w", database.ErrNotFound)
	}
	if gs.tree.isAncestorOrEqual(gs.pendingAt, b) && gs.pendingEffective <= bestBlockNumber {
		return gs.pendingEffective, nil
	}
	return 0, state.ErrNoNextAuthorityChange
}

func (gs *vGrandpaState) GetAuthoritiesChangesFromBlock(uint) ([]uint, error) { return nil, nil }

// ---------------------------------------------------------------------------
// network / telemetry fakes

type vSent struct {
	to  peer.ID // "" for gossip
	msg network.NotificationsMessage
}

// vNetwork records what the service sends (bounded to the last 256 messages).
type vNetwork struct {
	mu   sync.Mutex
	sent []vSent
}

func (n *vNetwork) record(to peer.ID, msg network.NotificationsMessage) {
	n.mu.Lock()
	defer n.mu.Unlock()
	if len(n.sent) >= 256 {
		n.sent = n.sent[1:]
	}
	n.sent = append(n.sent, vSent{to, msg})
}

func (n *vNetwork) GossipMessage(msg network.NotificationsMessage) { n.record("", msg) }
func (n *vNetwork) SendMessage(to peer.ID, msg NotificationsMessage) error {
	n.record(to, msg)
	return nil
}
func (n *vNetwork) RegisterNotificationsProtocol(protocol.ID, network.MessageType,
	network.HandshakeGetter, network.HandshakeDecoder, network.HandshakeValidator,
	network.MessageDecoder, network.NotificationsMessageHandler,
	network.NotificationsMessageBatchHandler, uint64) error {
	return nil
}

type vTelemetry struct{}

func (vTelemetry) SendMessage(json.Marshaler) {}

// ---------------------------------------------------------------------------
// keys and signatures

var vKeyCache sync.Map // int -> *ed25519.Keypair

// vKey returns deterministic key pair number i (seed = "verif-grandpa-key" || i).
func vKey(i int) *ed25519.Keypair {
	if k, ok := vKeyCache.Load(i); ok {
		return k.(*ed25519.Keypair)
	}
	seed := make([]byte, 32)
	copy(seed, "verif-grandpa-key")
	binary.LittleEndian.PutUint32(seed[28:], uint32(i)) //nolint:gosec
	kp, err := ed25519.NewKeypairFromSeed(seed)
	if err != nil {
		panic(err)
	}
	vKeyCache.Store(i, kp)
	return kp
}

func vPub(i int) ed25519.PublicKeyBytes {
	return vKey(i).Public().(*ed25519.PublicKey).AsBytes()
}

// vVoters returns the voter list for the given key numbers (ID = position).
func vVoters(keys []int) []types.GrandpaVoter {
	out := make([]types.GrandpaVoter, len(keys))
	for i, k := range keys {
		out[i] = types.GrandpaVoter{Key: *vKey(k).Public().(*ed25519.PublicKey), ID: uint64(i)} //nolint:gosec
	}
	return out
}

// vFullVotePayload is the signed payload of a GRANDPA vote, encoded by hand
// from the specification: stage (1 byte) || block hash (32) || block number
// (u32 LE) || round (u64 LE) || set id (u64 LE).
func vFullVotePayload(stage Subround, v Vote, round, setID uint64) []byte {
	b := make([]byte, 0, 53)
	b = append(b, byte(stage))
	b = append(b, v.Hash[:]...)
	b = binary.LittleEndian.AppendUint32(b, v.Number)
	b = binary.LittleEndian.AppendUint64(b, round)
	b = binary.LittleEndian.AppendUint64(b, setID)
	return b
}

// vSignVote signs the vote with key number key.
func vSignVote(key int, stage Subround, v Vote, round, setID uint64) [64]byte {
	sig, err := vKey(key).Sign(vFullVotePayload(stage, v, round, setID))
	if err != nil {
		panic(err)
	}
	return ed25519.NewSignatureBytes(sig)
}

// vVoteMessage builds the network vote message for a vote signed with sig.
func vVoteMessage(key int, stage Subround, v Vote, round, setID uint64, sig [64]byte) *VoteMessage {
	return &VoteMessage{
		Round: round,
		SetID: setID,
		Message: SignedMessage{
			Stage:       stage,
			BlockHash:   v.Hash,
			Number:      v.Number,
			Signature:   sig,
			AuthorityID: vPub(key),
		},
	}
}

// ---------------------------------------------------------------------------
// service construction

type vEnv struct {
	tree *vTree
	bs   *vBlockState
	gs   *vGrandpaState
	net  *vNetwork
	svc  *Service
}

var vQuietOnce sync.Once

// vNewService builds a Service through NewService over the fakes: authority
// set = keys (voter i has key keys[i]), the service itself holds key
// keys[self]. The grandpa state reports latestRound = highest finalised round
// of bs, so that a following svc.initiateRound() starts round highRound+1
// with svc.head = bs's finalised head. No goroutine is started (Start is not
// called); the package logger is silenced.
func vNewService(bs *vBlockState, keys []int, self int, setID uint64) (*vEnv, error) {
	vQuietOnce.Do(func() {
		logger.Patch(log.SetLevel(log.Critical), log.SetWriter(io.Discard))
	})
	gs := newVGrandpaState(bs.tree, setID, vVoters(keys), bs.highRound)
	net := &vNetwork{}
	svc, err := NewService(&Config{
		LogLvl:       log.Critical,
		BlockState:   bs,
		GrandpaState: gs,
		Network:      net,
		Voters:       vVoters(keys),
		Keypair:      vKey(keys[self]),
		Authority:    true,
		Telemetry:    vTelemetry{},
	})
	if err != nil {
		return nil, err
	}
	return &vEnv{tree: bs.tree, bs: bs, gs: gs, net: net, svc: svc}, nil
}
