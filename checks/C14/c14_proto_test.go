package c14

import (
	"bytes"
	"fmt"
	"strings"
	"testing"

	"github.com/ChainSafe/gossamer/dot/network/messages"
	"github.com/ChainSafe/gossamer/dot/types"
	kit "github.com/ChainSafe/gossamer/internal/verifkit"
	"github.com/ChainSafe/gossamer/lib/common"
	"pgregory.net/rapid"
)

func genRequest(t *rapid.T) mRequest {
	r := mRequest{
		fields:  rapid.SampledFrom([]byte{0, 1, 2, 3, 4, 8, 16, 19, 31, 0x80, 0xff}).Draw(t, "fields"),
		byHash:  rapid.Bool().Draw(t, "byHash"),
		descend: rapid.Bool().Draw(t, "descending"),
	}
	if r.byHash {
		r.hash = genHash(t, "from")
	} else {
		r.number = genU32(t, "from")
	}
	switch rapid.IntRange(0, 3).Draw(t, "maxKind") {
	case 0:
	case 1:
		z := uint32(0) // present-but-zero: the wire format cannot tell it from absent
		r.max = &z
	default:
		m := genU32(t, "max")
		r.max = &m
	}
	return r
}

func TestC14BlockRequest(t *testing.T) {
	defer kit.Flush()
	rapid.Check(t, func(t *rapid.T) {
		r := genRequest(t)
		ref := r.ref()
		msg := &messages.BlockRequestMessage{RequestedData: r.fields, Max: r.max}
		if r.byHash {
			msg.StartingBlock = *messages.NewFromBlock(common.Hash(r.hash))
		} else {
			msg.StartingBlock = *messages.NewFromBlock(uint(r.number))
		}
		if r.descend {
			msg.Direction = messages.Descending
		}
		got, err := msg.Encode()
		if err != nil {
			t.Fatalf("Encode %s: %v", r, err)
		}
		canon, err := pbCanon(got, nil)
		if err != nil {
			t.Fatalf("Encode %s produced malformed protobuf %x: %v", r, hb(got), err)
		}
		if !bytes.Equal(canon, ref) {
			t.Fatalf("BlockRequest %s:\n impl %x\n spec %x", r, hb(got), hb(ref))
		}
		var dec messages.BlockRequestMessage
		// pre-fill so that a field the decoder forgets to set is noticed
		stale := uint32(77)
		dec = messages.BlockRequestMessage{RequestedData: 0xaa, Direction: 7, Max: &stale, StartingBlock: *messages.NewFromBlock(uint(12345))}
		if err := dec.Decode(ref); err != nil {
			t.Fatalf("Decode(%x) of %s: %v", hb(ref), r, err)
		}
		if dec.RequestedData != r.fields {
			t.Fatalf("decoded %s: RequestedData %#x", r, dec.RequestedData)
		}
		if (dec.Direction == messages.Descending) != r.descend || (dec.Direction != messages.Descending && dec.Direction != messages.Ascending) {
			t.Fatalf("decoded %s: Direction %d", r, dec.Direction)
		}
		switch v := dec.StartingBlock.RawValue().(type) {
		case common.Hash:
			if !r.byHash || v != common.Hash(r.hash) {
				t.Fatalf("decoded %s: starting block %s", r, v)
			}
		case uint:
			if r.byHash || v != uint(r.number) {
				t.Fatalf("decoded %s: starting block %d", r, v)
			}
		default:
			t.Fatalf("decoded %s: starting block of type %T", r, v)
		}
		wantMax := uint32(0)
		if r.max != nil {
			wantMax = *r.max
		}
		gotMax := uint32(0)
		if dec.Max != nil {
			gotMax = *dec.Max
		}
		if gotMax != wantMax {
			t.Fatalf("decoded %s: max %d, want %d", r, gotMax, wantMax)
		}
		re, err := dec.Encode()
		if err != nil {
			t.Fatalf("re-Encode: %v", err)
		}
		if c2, err := pbCanon(re, nil); err != nil || !bytes.Equal(c2, ref) {
			t.Fatalf("re-encoding decoded %s: %x, want %x", r, hb(re), hb(ref))
		}
		ls := []string{"req:by-number"}
		if r.byHash {
			ls[0] = "req:by-hash"
		}
		if r.descend {
			ls = append(ls, "req:descending")
		} else {
			ls = append(ls, "req:ascending")
		}
		switch {
		case r.max == nil:
			ls = append(ls, "req:max-absent")
		case *r.max == 0:
			ls = append(ls, "req:max-zero")
		default:
			ls = append(ls, "req:max-present")
		}
		if r.fields == 0 {
			ls = append(ls, "req:fields-zero")
		}
		kit.Case(r.String(), r.fields != 0 || r.descend || wantMax != 0, ls...)
	})
}

func optEqual(what string, got *[]byte, want *[]byte, distinguishEmpty bool) error {
	gl, wl := -1, -1
	if got != nil {
		gl = len(*got)
	}
	if want != nil {
		wl = len(*want)
	}
	if !distinguishEmpty {
		// an empty and an absent bytes field are the same on the wire
		if gl <= 0 && wl <= 0 {
			return nil
		}
	}
	if (gl < 0) != (wl < 0) {
		return fmt.Errorf("%s: presence differs (got present=%v, want present=%v)", what, gl >= 0, wl >= 0)
	}
	if gl >= 0 && !bytes.Equal(*got, *want) {
		return fmt.Errorf("%s: %x, want %x", what, *got, *want)
	}
	return nil
}

func sameBlockData(m mBlockData, bd *types.BlockData) error {
	if bd == nil {
		return fmt.Errorf("nil block data")
	}
	if bd.Hash != common.Hash(m.hash) {
		return fmt.Errorf("hash %s", bd.Hash)
	}
	if (bd.Header != nil) != (m.header != nil) {
		return fmt.Errorf("header presence: got %v", bd.Header != nil)
	}
	if m.header != nil {
		if err := sameHeader(*m.header, bd.Header); err != nil {
			return fmt.Errorf("header: %w", err)
		}
		if want := common.Hash(kit.Blake256(m.header.ref())); bd.Header.Hash() != want {
			return fmt.Errorf("decoded header hash %s, want %s", bd.Header.Hash(), want)
		}
	}
	// body: absent and empty are the same on the wire (repeated field)
	var wantExts [][]byte
	if m.body != nil {
		wantExts = *m.body
	}
	var gotExts []types.Extrinsic
	if bd.Body != nil {
		gotExts = *bd.Body
	}
	if len(gotExts) != len(wantExts) {
		return fmt.Errorf("body: %d extrinsics, want %d", len(gotExts), len(wantExts))
	}
	for i := range wantExts {
		if !bytes.Equal(gotExts[i], wantExts[i]) {
			return fmt.Errorf("body: extrinsic %d = %x, want %x", i, gotExts[i], wantExts[i])
		}
	}
	if len(wantExts) > 0 && bd.Body == nil {
		return fmt.Errorf("body missing")
	}
	if err := optEqual("receipt", bd.Receipt, m.receipt, false); err != nil {
		return err
	}
	if err := optEqual("message queue", bd.MessageQueue, m.msgQueue, false); err != nil {
		return err
	}
	return optEqual("justification", bd.Justification, m.justificat, true)
}

func buildBlockData(m mBlockData) (*types.BlockData, error) {
	bd := &types.BlockData{Hash: common.Hash(m.hash)}
	if m.header != nil {
		h, err := buildHeader(*m.header)
		if err != nil {
			return nil, err
		}
		bd.Header = h
	}
	if m.body != nil {
		bd.Body = types.NewBody(types.BytesArrayToExtrinsics(*m.body))
	}
	cp := func(p *[]byte) *[]byte {
		if p == nil {
			return nil
		}
		c := append([]byte{}, *p...)
		return &c
	}
	bd.Receipt, bd.MessageQueue, bd.Justification = cp(m.receipt), cp(m.msgQueue), cp(m.justificat)
	return bd, nil
}

func TestC14BlockResponse(t *testing.T) {
	defer kit.Flush()
	rapid.Check(t, func(t *rapid.T) {
		n := rapid.SampledFrom([]int{0, 1, 1, 2, 3}).Draw(t, "nBlocks")
		ms := make([]mBlockData, n)
		msg := &messages.BlockResponseMessage{}
		for i := range ms {
			ms[i] = genBlockData(t)
			bd, err := buildBlockData(ms[i])
			if err != nil {
				t.Fatalf("building %s: %v", ms[i], err)
			}
			msg.BlockData = append(msg.BlockData, bd)
		}
		ref := refResponse(ms)
		got, err := msg.Encode()
		if err != nil {
			t.Fatalf("Encode: %v", err)
		}
		canon, err := pbCanon(got, map[int]bool{1: true})
		if err != nil {
			t.Fatalf("Encode produced malformed protobuf %x: %v", hb(got), err)
		}
		if !bytes.Equal(canon, ref) {
			t.Fatalf("BlockResponse %v:\n impl %x\n spec %x", ms, hb(got), hb(ref))
		}
		dec := &messages.BlockResponseMessage{BlockData: []*types.BlockData{{Hash: common.Hash{9}}}}
		if err := dec.Decode(ref); err != nil {
			t.Fatalf("Decode(%x) of %v: %v", hb(ref), ms, err)
		}
		if len(dec.BlockData) != n {
			t.Fatalf("decoded %d blocks, want %d", len(dec.BlockData), n)
		}
		for i := range ms {
			if err := sameBlockData(ms[i], dec.BlockData[i]); err != nil {
				t.Fatalf("decoded block %d of %v: %v", i, ms, err)
			}
		}
		re, err := dec.Encode()
		if err != nil {
			t.Fatalf("re-Encode: %v", err)
		}
		if c2, err := pbCanon(re, map[int]bool{1: true}); err != nil || !bytes.Equal(c2, ref) {
			t.Fatalf("re-encoding decoded response %v: %x, want %x", ms, hb(re), hb(ref))
		}
		labels := map[string]bool{fmt.Sprintf("resp:blocks=%d", n): true}
		nontrivial := false
		var d strings.Builder
		d.WriteString("resp")
		for _, m := range ms {
			d.WriteString(" " + m.String())
			present, absent := 0, 0
			mark := func(name string, isPresent bool) {
				if isPresent {
					present++
					labels["resp:"+name+"-present"] = true
				} else {
					absent++
					labels["resp:"+name+"-absent"] = true
				}
			}
			mark("header", m.header != nil)
			mark("body", m.body != nil)
			mark("receipt", m.receipt != nil)
			mark("msgqueue", m.msgQueue != nil)
			mark("justification", m.justificat != nil)
			if m.body != nil && len(*m.body) == 0 {
				labels["resp:body-empty"] = true
			}
			if m.justificat != nil && len(*m.justificat) == 0 {
				labels["resp:justification-empty"] = true
			}
			if m.receipt != nil && len(*m.receipt) == 0 {
				labels["resp:receipt-empty"] = true
			}
			if present > 0 && absent > 0 {
				nontrivial = true
			}
		}
		var ls []string
		for l := range labels {
			ls = append(ls, l)
		}
		kit.Case(d.String(), nontrivial, ls...)
	})
}
