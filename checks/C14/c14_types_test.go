package c14

import (
	"bytes"
	"fmt"
	"reflect"
	"strings"
	"testing"

	"github.com/ChainSafe/gossamer/dot/types"
	kit "github.com/ChainSafe/gossamer/internal/verifkit"
	"github.com/ChainSafe/gossamer/lib/common"
	"github.com/ChainSafe/gossamer/lib/crypto/ed25519"
	"github.com/ChainSafe/gossamer/pkg/scale"
	"pgregory.net/rapid"
)

const findingOther = "C14-digest-other-missing"

// The generation / non-triviality rule is stated in check.json ("rule").

// ---------------------------------------------------------------- model -> gossamer values and back

// otherValue builds the implementation's value for an Other digest item
// (enum index 0) without naming its type, so that this file compiles whether
// or not the tree has such a variant. ok=false: the tree has no usable variant.
func otherValue(data []byte) (v any, ok bool) {
	zero, err := types.DigestItem{}.ValueAt(kindOther)
	if err != nil || zero == nil {
		return nil, false
	}
	rv := reflect.New(reflect.TypeOf(zero)).Elem()
	if rv.Kind() != reflect.Slice || rv.Type().Elem().Kind() != reflect.Uint8 {
		return nil, false
	}
	rv.SetBytes(append([]byte{}, data...))
	return rv.Interface(), true
}

func buildDigest(items []mItem) (types.Digest, error) {
	d := types.NewDigest()
	for _, it := range items {
		var v any
		switch it.kind {
		case kindPreRuntime:
			v = types.PreRuntimeDigest{ConsensusEngineID: it.engine, Data: it.data}
		case kindConsensus:
			v = types.ConsensusDigest{ConsensusEngineID: it.engine, Data: it.data}
		case kindSeal:
			v = types.SealDigest{ConsensusEngineID: it.engine, Data: it.data}
		case kindRuntimeEnv:
			v = types.RuntimeEnvironmentUpdated{}
		case kindOther:
			ov, ok := otherValue(it.data)
			if !ok {
				return nil, fmt.Errorf("tree has no Other digest variant")
			}
			v = ov
		}
		if err := d.Add(v); err != nil {
			return nil, fmt.Errorf("Digest.Add(%T): %w", v, err)
		}
	}
	return d, nil
}

func buildHeader(m mHeader) (*types.Header, error) {
	d, err := buildDigest(m.items)
	if err != nil {
		return nil, err
	}
	return &types.Header{
		ParentHash: common.Hash(m.parent), Number: uint(m.number), StateRoot: common.Hash(m.state),
		ExtrinsicsRoot: common.Hash(m.ext), Digest: d,
	}, nil
}

// sameHeader compares a decoded header with the model, field by field.
func sameHeader(m mHeader, h *types.Header) error {
	if h == nil {
		return fmt.Errorf("nil header")
	}
	if h.ParentHash != common.Hash(m.parent) || h.StateRoot != common.Hash(m.state) || h.ExtrinsicsRoot != common.Hash(m.ext) {
		return fmt.Errorf("hash fields differ: %x %x %x", h.ParentHash, h.StateRoot, h.ExtrinsicsRoot)
	}
	if h.Number != uint(m.number) {
		return fmt.Errorf("number %d, want %d", h.Number, m.number)
	}
	if len(h.Digest) != len(m.items) {
		return fmt.Errorf("%d digest items, want %d", len(h.Digest), len(m.items))
	}
	for i, it := range m.items {
		v, err := h.Digest[i].Value()
		if err != nil {
			return fmt.Errorf("item %d: Value: %v", i, err)
		}
		var kind int
		var engine [4]byte
		var data []byte
		switch x := v.(type) {
		case types.PreRuntimeDigest:
			kind, engine, data = kindPreRuntime, x.ConsensusEngineID, x.Data
		case types.ConsensusDigest:
			kind, engine, data = kindConsensus, x.ConsensusEngineID, x.Data
		case types.SealDigest:
			kind, engine, data = kindSeal, x.ConsensusEngineID, x.Data
		case types.RuntimeEnvironmentUpdated:
			kind = kindRuntimeEnv
		default:
			rv := reflect.ValueOf(v)
			if rv.Kind() == reflect.Slice && rv.Type().Elem().Kind() == reflect.Uint8 {
				kind, data = kindOther, rv.Bytes()
			} else {
				return fmt.Errorf("item %d: unexpected value type %T", i, v)
			}
		}
		if kind != it.kind || engine != it.engine || !bytes.Equal(data, it.data) {
			return fmt.Errorf("item %d: got kind %d engine %x data %x, want %s", i, kind, engine, data, it)
		}
	}
	return nil
}

// ---------------------------------------------------------------- headers

type fataler interface {
	Fatalf(format string, args ...any)
}

func checkHeader(t fataler, m mHeader, reuse *mHeader) {
	ref := m.ref()
	wantHash := common.Hash(kit.Blake256(ref))

	// decode the reference bytes into a fresh header
	// (from a read buffer that is overwritten after the call, as a network stream's
	// pooled buffer is: the decoded header must not alias it)
	dec := types.NewEmptyHeader()
	wire := append([]byte{}, ref...)
	if err := scale.Unmarshal(wire, dec); err != nil {
		t.Fatalf("decoding spec-valid header %s (bytes %x): %v", m, hb(ref), err)
	}
	for i := range wire {
		wire[i] ^= 0xa5
	}
	if err := sameHeader(m, dec); err != nil {
		t.Fatalf("decoded header differs from %s: %v", m, err)
	}
	// (the hash of a header does not depend on what was hashed before it, successfully
	// or not: Hash of a header that cannot be encoded - an unset digest item - panics
	// as documented, is recovered, and precedes the hash under test)
	func() {
		defer func() { _ = recover() }()
		bad := &types.Header{ParentHash: common.Hash{0xde, 0xad}, Number: 7, Digest: types.Digest{types.NewDigestItem()}}
		_ = bad.Hash()
	}()
	if got := dec.Hash(); got != wantHash {
		t.Fatalf("Hash of decoded header %s: %s, BLAKE2b-256(encoding) = %s", m, got, wantHash)
	}
	re, err := scale.Marshal(*dec)
	if err != nil || !bytes.Equal(re, ref) {
		t.Fatalf("re-encoding decoded header %s: %x (err %v), want %x", m, hb(re), err, hb(ref))
	}

	// decode into a header variable that already held another header with a cached hash
	if reuse != nil {
		if old, err := buildHeader(*reuse); err == nil {
			oldHash := old.Hash()
			if want := common.Hash(kit.Blake256(reuse.ref())); oldHash != want {
				t.Fatalf("Hash of %s: %s, want %s", reuse, oldHash, want)
			}
			if err := scale.Unmarshal(ref, old); err != nil {
				t.Fatalf("decoding %s into a used header: %v", m, err)
			}
			if err := sameHeader(m, old); err != nil {
				t.Fatalf("header decoded into a used variable (held %s) differs from %s: %v", reuse, m, err)
			}
			if got := old.Hash(); got != wantHash {
				t.Fatalf("Hash after decoding %s into a variable that held %s: %s, want %s (stale hash %s)", m, reuse, got, wantHash, oldHash)
			}
		}
	}

	// encode a header built from Go values
	h, err := buildHeader(m)
	if err != nil {
		if m.hasOther() {
			return // tree decodes Other but offers no constructible variant: decode side only
		}
		t.Fatalf("building %s: %v", m, err)
	}
	got, err := scale.Marshal(*h)
	if err != nil {
		t.Fatalf("Marshal %s: %v", m, err)
	}
	if !bytes.Equal(got, ref) {
		t.Fatalf("encoding of %s:\n impl %x\n spec %x", m, hb(got), hb(ref))
	}
	if hh := h.Hash(); hh != wantHash {
		t.Fatalf("Hash of %s: %s, BLAKE2b-256(encoding) = %s", m, hh, wantHash)
	}
	if hh := h.Hash(); hh != wantHash {
		t.Fatalf("second Hash call of %s: %s, want %s", m, hh, wantHash)
	}
	nh := types.NewHeader(h.ParentHash, h.StateRoot, h.ExtrinsicsRoot, h.Number, h.Digest)
	if hh := nh.Hash(); hh != wantHash {
		t.Fatalf("NewHeader(...).Hash of %s: %s, want %s", m, hh, wantHash)
	}
	// a deep copy of an already hashed header is a header of its own: once it is
	// modified (as block execution does when it strips the seal) its hash is the
	// BLAKE2b-256 of ITS encoding, not the hash cached in the original
	cp, err := h.DeepCopy()
	if err != nil {
		t.Fatalf("DeepCopy of %s: %v", m, err)
	}
	if hh := cp.Hash(); hh != wantHash {
		t.Fatalf("Hash of an unmodified DeepCopy of %s: %s, want %s", m, hh, wantHash)
	}
	cp2, err := h.DeepCopy()
	if err != nil {
		t.Fatalf("DeepCopy of %s: %v", m, err)
	}
	m2 := m
	if len(m.items) > 0 {
		m2.items = m.items[:len(m.items)-1]
		cp2.Digest = cp2.Digest[:len(cp2.Digest)-1]
	} else if m.number != ^uint32(0) {
		m2.number = m.number + 1
		cp2.Number++
	} else {
		m2.number = m.number - 1
		cp2.Number--
	}
	ref2 := m2.ref()
	if enc2, err := scale.Marshal(*cp2); err != nil || !bytes.Equal(enc2, ref2) {
		t.Fatalf("encoding of the modified copy of %s: %x (err %v), want %x", m, hb(enc2), err, hb(ref2))
	}
	if hh, want := cp2.Hash(), common.Hash(kit.Blake256(ref2)); hh != want {
		t.Fatalf("Hash of a modified DeepCopy of the hashed header %s: %s, BLAKE2b-256(its encoding) = %s (hash of the original %s)", m, hh, want, wantHash)
	}
	if hh := h.Hash(); hh != wantHash {
		t.Fatalf("Hash of %s changed after its copy was modified: %s, want %s", m, hh, wantHash)
	}
	// every digest item on its own
	for i, it := range m.items {
		e := &enc{}
		it.ref(e)
		one, err := scale.Marshal(h.Digest[i])
		if err != nil || !bytes.Equal(one, e.b) {
			t.Fatalf("digest item %s: impl %x (err %v), spec %x", it, hb(one), err, hb(e.b))
		}
	}
}

func headerLabels(m mHeader) []string {
	ls := []string{fmt.Sprintf("items=%d", len(m.items))}
	seen := map[string]bool{}
	for _, it := range m.items {
		var l string
		switch it.kind {
		case kindOther:
			l = "item:other"
		case kindRuntimeEnv:
			l = "item:runtime-env-updated"
		case kindConsensus:
			l = "item:consensus/" + it.what
		case kindSeal:
			l = "item:seal"
		case kindPreRuntime:
			l = "item:pre-runtime/" + it.what
		}
		if len(it.data) >= 64 {
			seen["item-data>=64(2-byte compact)"] = true
		}
		if len(it.data) >= 16384 {
			seen["item-data>=16384(4-byte compact)"] = true
		}
		seen[l] = true
	}
	switch {
	case m.number < 1<<6:
		seen["number:1-byte compact"] = true
	case m.number < 1<<14:
		seen["number:2-byte compact"] = true
	case m.number < 1<<30:
		seen["number:4-byte compact"] = true
	default:
		seen["number:big compact"] = true
	}
	for l := range seen {
		ls = append(ls, l)
	}
	return ls
}

// steerOther applies the known-finding exclusion: while the finding is listed
// as open, Other items are taken out of the generated header (counted).
func steerOther(m mHeader) mHeader {
	if !m.hasOther() || !kit.KnownOpen(findingOther) {
		return m
	}
	kit.Excluded(findingOther)
	var keep []mItem
	for _, it := range m.items {
		if it.kind != kindOther {
			keep = append(keep, it)
		}
	}
	m.items = keep
	return m
}

func TestC14Header(t *testing.T) {
	defer kit.Flush()
	rapid.Check(t, func(t *rapid.T) {
		m := steerOther(genHeader(t, true))
		var reuse *mHeader
		if rapid.Bool().Draw(t, "reuse") {
			r := genHeader(t, false)
			reuse = &r
		}
		checkHeader(t, m, reuse)
		ls := headerLabels(m)
		if reuse != nil {
			ls = append(ls, "decoded-into-used-variable")
		}
		kit.Case(m.String(), len(m.items) >= 2, ls...)
	})
}

// ---------------------------------------------------------------- bodies

func TestC14Body(t *testing.T) {
	defer kit.Flush()
	rapid.Check(t, func(t *rapid.T) {
		exts := genExtrinsics(t)
		e := &enc{}
		e.compact(uint64(len(exts)))
		var encoded [][]byte
		hasEmpty := false
		for _, x := range exts {
			e.vec(x)
			encoded = append(encoded, (&enc{}).vec(x).b)
			hasEmpty = hasEmpty || len(x) == 0
		}
		ref := e.b
		body := types.NewBody(types.BytesArrayToExtrinsics(exts))
		got, err := scale.Marshal(*body)
		if err != nil || !bytes.Equal(got, ref) {
			t.Fatalf("body %d extrinsics: impl %x (err %v), spec %x", len(exts), hb(got), err, hb(ref))
		}
		same := func(what string, b *types.Body) {
			if b == nil {
				t.Fatalf("%s: nil body", what)
			}
			if len(*b) != len(exts) {
				t.Fatalf("%s: %d extrinsics, want %d", what, len(*b), len(exts))
			}
			for i := range exts {
				if !bytes.Equal((*b)[i], exts[i]) {
					t.Fatalf("%s: extrinsic %d = %x, want %x", what, i, (*b)[i], exts[i])
				}
			}
			re, err := scale.Marshal(*b)
			if err != nil || !bytes.Equal(re, ref) {
				t.Fatalf("%s: re-encoding %x (err %v), want %x", what, hb(re), err, hb(ref))
			}
		}
		wire1 := append([]byte{}, ref...)
		b1, err := types.NewBodyFromBytes(wire1)
		if err != nil {
			t.Fatalf("NewBodyFromBytes(%x): %v", hb(ref), err)
		}
		for i := range wire1 {
			wire1[i] ^= 0xa5 // the read buffer is reused by the caller
		}
		same("NewBodyFromBytes", b1)
		var b2 types.Body
		wire2 := append([]byte{}, ref...)
		if err := scale.Unmarshal(wire2, &b2); err != nil {
			t.Fatalf("Unmarshal body %x: %v", hb(ref), err)
		}
		for i := range wire2 {
			wire2[i] ^= 0xa5
		}
		same("Unmarshal", &b2)
		b3, err := types.NewBodyFromEncodedBytes(encoded)
		if err != nil {
			t.Fatalf("NewBodyFromEncodedBytes: %v", err)
		}
		same("NewBodyFromEncodedBytes", b3)
		encExts, err := body.AsEncodedExtrinsics()
		if err != nil || len(encExts) != len(exts) {
			t.Fatalf("AsEncodedExtrinsics: %v (%d)", err, len(encExts))
		}
		for i := range encoded {
			if !bytes.Equal(encExts[i], encoded[i]) {
				t.Fatalf("AsEncodedExtrinsics[%d] = %x, want %x", i, encExts[i], encoded[i])
			}
		}
		var d strings.Builder
		d.WriteString("body")
		for _, x := range exts {
			fmt.Fprintf(&d, " %d:%x", len(x), x[:min(len(x), 4)])
		}
		ls := []string{fmt.Sprintf("body-extrinsics=%d", len(exts))}
		if hasEmpty {
			ls = append(ls, "body-empty-extrinsic")
		}
		kit.Case(d.String(), len(exts) >= 2 || hasEmpty, ls...)
	})
}

// ---------------------------------------------------------------- BABE / GRANDPA digests

func toAuthRaw(as []mAuth) []types.AuthorityRaw {
	out := make([]types.AuthorityRaw, len(as))
	for i, a := range as {
		out[i] = types.AuthorityRaw{Key: a.key, Weight: a.weight}
	}
	return out
}

func toGrandpaAuthRaw(as []mAuth) []types.GrandpaAuthoritiesRaw {
	out := make([]types.GrandpaAuthoritiesRaw, len(as))
	for i, a := range as {
		out[i] = types.GrandpaAuthoritiesRaw{Key: a.key, ID: a.weight}
	}
	return out
}

// normalise empty slices so that reflect.DeepEqual does not distinguish nil
// from empty (the encoding cannot).
func normAuthRaw(v []types.AuthorityRaw) []types.AuthorityRaw {
	if len(v) == 0 {
		return nil
	}
	return v
}
func normGAuthRaw(v []types.GrandpaAuthoritiesRaw) []types.GrandpaAuthoritiesRaw {
	if len(v) == 0 {
		return nil
	}
	return v
}

func checkPreDigest(t *rapid.T, p mPreDigest) {
	ref := p.ref()
	var v any
	var pr *types.PreRuntimeDigest
	var err error
	switch p.kind {
	case 1:
		x := types.BabePrimaryPreDigest{AuthorityIndex: p.auth, SlotNumber: p.slot, VRFOutput: p.output, VRFProof: p.proof}
		v = x
		pr, err = x.ToPreRuntimeDigest()
	case 2:
		x := types.BabeSecondaryPlainPreDigest{AuthorityIndex: p.auth, SlotNumber: p.slot}
		v = x
		pr, err = x.ToPreRuntimeDigest()
	case 3:
		x := types.BabeSecondaryVRFPreDigest{AuthorityIndex: p.auth, SlotNumber: p.slot, VrfOutput: p.output, VrfProof: p.proof}
		v = x
		pr, err = x.ToPreRuntimeDigest()
	}
	if err != nil {
		t.Fatalf("ToPreRuntimeDigest(%v): %v", v, err)
	}
	if pr.ConsensusEngineID != types.BabeEngineID || !bytes.Equal(pr.Data, ref) {
		t.Fatalf("ToPreRuntimeDigest(%v): engine %s data %x, spec %x", v, pr.ConsensusEngineID, hb(pr.Data), hb(ref))
	}
	bd := types.NewBabeDigest()
	if err := bd.SetValue(v); err != nil {
		t.Fatalf("BabeDigest.SetValue(%T): %v", v, err)
	}
	got, err := scale.Marshal(bd)
	if err != nil || !bytes.Equal(got, ref) {
		t.Fatalf("BABE pre-digest %v: impl %x (err %v), spec %x", v, hb(got), err, hb(ref))
	}
	dec, err := types.DecodeBabePreDigest(ref)
	if err != nil {
		t.Fatalf("DecodeBabePreDigest(%x): %v", hb(ref), err)
	}
	if !reflect.DeepEqual(dec, v) {
		t.Fatalf("DecodeBabePreDigest(%x) = %#v, want %#v", hb(ref), dec, v)
	}
}

func checkBabeCons(t *rapid.T, c mBabeCons) {
	ref := c.ref()
	var v any
	switch c.kind {
	case 1:
		v = types.NextEpochData{Authorities: normAuthRaw(toAuthRaw(c.auths)), Randomness: c.randomness}
	case 2:
		v = types.BABEOnDisabled{ID: c.disabled}
	case 3:
		vn := types.NewVersionedNextConfigData()
		if err := vn.SetValue(types.NextConfigDataV1{C1: c.c1, C2: c.c2, SecondarySlots: c.secondary}); err != nil {
			t.Fatalf("VersionedNextConfigData.SetValue: %v", err)
		}
		v = vn
	}
	d := types.NewBabeConsensusDigest()
	if err := d.SetValue(v); err != nil {
		t.Fatalf("BabeConsensusDigest.SetValue(%T): %v", v, err)
	}
	got, err := scale.Marshal(d)
	if err != nil || !bytes.Equal(got, ref) {
		t.Fatalf("BABE consensus digest %v: impl %x (err %v), spec %x", v, hb(got), err, hb(ref))
	}
	dec := types.NewBabeConsensusDigest()
	if err := scale.Unmarshal(ref, &dec); err != nil {
		t.Fatalf("decoding BABE consensus digest %x: %v", hb(ref), err)
	}
	dv, err := dec.Value()
	if err != nil {
		t.Fatalf("Value: %v", err)
	}
	if ne, ok := dv.(types.NextEpochData); ok {
		ne.Authorities = normAuthRaw(ne.Authorities)
		dv = ne
	}
	if !reflect.DeepEqual(dv, v) {
		t.Fatalf("decoded BABE consensus digest %x = %#v, want %#v", hb(ref), dv, v)
	}
	re, err := scale.Marshal(dec)
	if err != nil || !bytes.Equal(re, ref) {
		t.Fatalf("re-encoding BABE consensus digest: %x (err %v), want %x", hb(re), err, hb(ref))
	}
}

func checkGrandpaCons(t *rapid.T, c mGrandpaCons) {
	ref := c.ref()
	var v any
	switch c.kind {
	case 1:
		v = types.GrandpaScheduledChange{Auths: normGAuthRaw(toGrandpaAuthRaw(c.auths)), Delay: c.delay}
	case 2:
		v = types.GrandpaForcedChange{BestFinalizedBlock: c.best, Auths: normGAuthRaw(toGrandpaAuthRaw(c.auths)), Delay: c.delay}
	case 3:
		v = types.GrandpaOnDisabled{ID: c.disabled}
	case 4:
		v = types.GrandpaPause{Delay: c.delay}
	case 5:
		v = types.GrandpaResume{Delay: c.delay}
	}
	d := types.NewGrandpaConsensusDigest()
	if err := d.SetValue(v); err != nil {
		t.Fatalf("GrandpaConsensusDigest.SetValue(%T): %v", v, err)
	}
	got, err := scale.Marshal(d)
	if err != nil || !bytes.Equal(got, ref) {
		t.Fatalf("GRANDPA consensus digest %v: impl %x (err %v), spec %x", v, hb(got), err, hb(ref))
	}
	dec := types.NewGrandpaConsensusDigest()
	if err := scale.Unmarshal(ref, &dec); err != nil {
		t.Fatalf("decoding GRANDPA consensus digest %x: %v", hb(ref), err)
	}
	dv, err := dec.Value()
	if err != nil {
		t.Fatalf("Value: %v", err)
	}
	switch x := dv.(type) {
	case types.GrandpaScheduledChange:
		x.Auths = normGAuthRaw(x.Auths)
		dv = x
	case types.GrandpaForcedChange:
		x.Auths = normGAuthRaw(x.Auths)
		dv = x
	}
	if !reflect.DeepEqual(dv, v) {
		t.Fatalf("decoded GRANDPA consensus digest %x = %#v, want %#v", hb(ref), dv, v)
	}
	re, err := scale.Marshal(dec)
	if err != nil || !bytes.Equal(re, ref) {
		t.Fatalf("re-encoding GRANDPA consensus digest: %x (err %v), want %x", hb(re), err, hb(ref))
	}
}

var babePreNames = map[int]string{1: "babe-pre:primary", 2: "babe-pre:secondary-plain", 3: "babe-pre:secondary-vrf"}
var babeConsNames = map[int]string{1: "babe-cons:next-epoch-data", 2: "babe-cons:on-disabled", 3: "babe-cons:next-config-v1"}
var grandpaConsNames = map[int]string{1: "grandpa-cons:scheduled-change", 2: "grandpa-cons:forced-change", 3: "grandpa-cons:on-disabled", 4: "grandpa-cons:pause", 5: "grandpa-cons:resume"}

func TestC14Digests(t *testing.T) {
	defer kit.Flush()
	rapid.Check(t, func(t *rapid.T) {
		switch rapid.IntRange(0, 2).Draw(t, "family") {
		case 0:
			p := genPreDigest(t)
			checkPreDigest(t, p)
			kit.Case(fmt.Sprintf("%s %x", babePreNames[p.kind], p.ref()), p.auth != 0 || p.slot != 0, babePreNames[p.kind])
		case 1:
			c := genBabeCons(t)
			checkBabeCons(t, c)
			ls := []string{babeConsNames[c.kind]}
			if c.kind == 1 {
				ls = append(ls, fmt.Sprintf("authorities=%d", len(c.auths)))
			}
			kit.Case(fmt.Sprintf("%s %x", babeConsNames[c.kind], c.ref()), len(c.auths) > 0 || c.disabled != 0 || c.c1 != 0 || c.c2 != 0, ls...)
		case 2:
			c := genGrandpaCons(t)
			checkGrandpaCons(t, c)
			ls := []string{grandpaConsNames[c.kind]}
			if c.kind <= 2 {
				ls = append(ls, fmt.Sprintf("authorities=%d", len(c.auths)))
			}
			kit.Case(fmt.Sprintf("%s %x", grandpaConsNames[c.kind], c.ref()), len(c.auths) > 0 || c.delay != 0 || c.disabled != 0, ls...)
		}
	})
}

// ---------------------------------------------------------------- GRANDPA votes (dot/types)

func toVote(v mVote) types.GrandpaVote {
	return types.GrandpaVote{Hash: common.Hash(v.hash), Number: v.number}
}

func toSignedVote(s mSignedVote) types.GrandpaSignedVote {
	return types.GrandpaSignedVote{Vote: toVote(s.vote), Signature: s.sig, AuthorityID: ed25519.PublicKeyBytes(s.id)}
}

// roundTrip: Marshal(v) == ref, Unmarshal(ref) into a fresh *T deep-equals v and re-encodes to ref.
func roundTrip[T any](t *rapid.T, what string, v T, ref []byte) {
	got, err := scale.Marshal(v)
	if err != nil || !bytes.Equal(got, ref) {
		t.Fatalf("%s %+v:\n impl %x (err %v)\n spec %x", what, v, hb(got), err, hb(ref))
	}
	var dec T
	if err := scale.Unmarshal(ref, &dec); err != nil {
		t.Fatalf("%s: decoding %x: %v", what, hb(ref), err)
	}
	if !reflect.DeepEqual(dec, v) {
		t.Fatalf("%s: decoded %x = %+v, want %+v", what, hb(ref), dec, v)
	}
	re, err := scale.Marshal(dec)
	if err != nil || !bytes.Equal(re, ref) {
		t.Fatalf("%s: re-encoding %x (err %v), want %x", what, hb(re), err, hb(ref))
	}
}

func TestC14GrandpaTypes(t *testing.T) {
	defer kit.Flush()
	rapid.Check(t, func(t *rapid.T) {
		switch rapid.IntRange(0, 3).Draw(t, "family") {
		case 0:
			v := genVote(t, "vote")
			e := &enc{}
			v.ref(e)
			roundTrip(t, "GrandpaVote", toVote(v), e.b)
			kit.Case(fmt.Sprintf("vote %x", e.b), v.number != 0, "grandpa-vote")
		case 1:
			s := genSignedVote(t, "sv")
			e := &enc{}
			s.ref(e)
			roundTrip(t, "GrandpaSignedVote", toSignedVote(s), e.b)
			kit.Case(fmt.Sprintf("signed-vote %x", e.b), s.vote.number != 0, "grandpa-signed-vote")
		case 2:
			as := genAuths(t, "voter")
			e := &enc{}
			refAuths(e, as)
			voters := make(types.GrandpaVoters, len(as))
			for i, a := range as {
				pk, err := ed25519.NewPublicKey(a.key[:])
				if err != nil {
					t.Fatalf("NewPublicKey: %v", err)
				}
				voters[i] = types.GrandpaVoter{Key: *pk, ID: a.weight}
			}
			got, err := types.EncodeGrandpaVoters(voters)
			if err != nil || !bytes.Equal(got, e.b) {
				t.Fatalf("EncodeGrandpaVoters: impl %x (err %v), spec %x", hb(got), err, hb(e.b))
			}
			dec, err := types.DecodeGrandpaVoters(e.b)
			if err != nil || len(dec) != len(as) {
				t.Fatalf("DecodeGrandpaVoters(%x): %v (%d voters)", hb(e.b), err, len(dec))
			}
			for i, a := range as {
				if dec[i].Key.AsBytes() != ed25519.PublicKeyBytes(a.key) || dec[i].ID != a.weight {
					t.Fatalf("DecodeGrandpaVoters: voter %d = %v, want key %x id %d", i, dec[i], a.key, a.weight)
				}
			}
			kit.Case(fmt.Sprintf("voters %x", e.b), len(as) > 0, "grandpa-voters", fmt.Sprintf("voters=%d", len(as)))
		case 3:
			// equivocation proof: set id, enum {0 prevote, 1 precommit}, round, identity, (vote, signature) x 2
			setID, round := genU64(t, "setID"), genU64(t, "round")
			stage := rapid.IntRange(0, 1).Draw(t, "stage")
			id := genHash(t, "id")
			v1, v2 := genVote(t, "first"), genVote(t, "second")
			s1, s2 := genSig(t, "sig1"), genSig(t, "sig2")
			e := &enc{}
			e.u64(setID).u8(byte(stage)).u64(round).raw(id[:])
			v1.ref(e)
			e.raw(s1[:])
			v2.ref(e)
			e.raw(s2[:])
			eq := types.GrandpaEquivocation{RoundNumber: round, ID: id, FirstVote: toVote(v1), FirstSignature: s1, SecondVote: toVote(v2), SecondSignature: s2}
			en := types.NewGrandpaEquivocation()
			var err error
			if stage == 0 {
				err = en.SetValue(types.PreVote(eq))
			} else {
				err = en.SetValue(types.PreCommit(eq))
			}
			if err != nil {
				t.Fatalf("SetValue: %v", err)
			}
			roundTrip(t, "GrandpaEquivocationProof", types.GrandpaEquivocationProof{SetID: setID, Equivocation: *en}, e.b)
			kit.Case(fmt.Sprintf("equivocation-proof %x", e.b), round != 0 || setID != 0, fmt.Sprintf("grandpa-equivocation-proof/stage=%d", stage))
		}
	})
}

// ---------------------------------------------------------------- known finding witness + fixed regressions

// otherWitnessModel is the recorded input of finding C14-digest-other-missing:
// the all-zero header with the single digest item Other(0x).
func otherWitnessModel() mHeader { return mHeader{items: []mItem{{kind: kindOther}}} }

// TestC14KnownDigestOther re-executes the recorded input. PRESENT: decoding the
// spec-valid header fails because enum index 0 is unknown. ABSENT: the header
// decodes, equals the model, re-encodes identically and hashes correctly.
func TestC14KnownDigestOther(t *testing.T) {
	defer kit.Flush()
	m := otherWitnessModel()
	ref := m.ref()
	want := append(make([]byte, 97), 0x04, 0x00, 0x00)
	if !bytes.Equal(ref, want) {
		t.Fatalf("witness bytes drifted: %x", ref)
	}
	dec := types.NewEmptyHeader()
	err := scale.Unmarshal(ref, dec)
	if err != nil {
		if strings.Contains(err.Error(), scale.ErrUnknownVaryingDataTypeValue.Error()) {
			kit.WitnessResult(findingOther, true, fmt.Sprintf("scale.Unmarshal(%x..0400 00) into types.Header: %v", ref[:4], err))
			return
		}
		t.Fatalf("witness fails in a different way: %v", err)
	}
	if err := sameHeader(m, dec); err != nil {
		t.Fatalf("witness decodes but differs: %v", err)
	}
	re, err := scale.Marshal(*dec)
	if err != nil || !bytes.Equal(re, ref) {
		t.Fatalf("witness decodes but re-encodes to %x (err %v)", re, err)
	}
	if dec.Hash() != common.Hash(kit.Blake256(ref)) {
		t.Fatalf("witness decodes but hashes to %s", dec.Hash())
	}
	kit.WitnessResult(findingOther, false, "")
}

// TestC14Regressions: fixed deterministic cases that bypass the generator: one
// header with one item of every constructible kind (bytes written out by
// hand, so the reference encoder itself is pinned too) and, when the tree has
// an Other variant, the recorded Other header through the full check.
func TestC14Regressions(t *testing.T) {
	defer kit.Flush()
	m := mHeader{number: 64, items: []mItem{
		{kind: kindPreRuntime, engine: [4]byte{'B', 'A', 'B', 'E'}, data: []byte{2, 1, 0, 0, 0, 5, 0, 0, 0, 0, 0, 0, 0}},
		{kind: kindConsensus, engine: [4]byte{'F', 'R', 'N', 'K'}, data: []byte{4, 9, 0, 0, 0}},
		{kind: kindRuntimeEnv},
		{kind: kindSeal, engine: [4]byte{'B', 'A', 'B', 'E'}, data: bytes.Repeat([]byte{0xab}, 64)},
	}}
	m.parent[0], m.state[31], m.ext[1] = 1, 2, 3
	var want []byte
	want = append(want, m.parent[:]...)
	want = append(want, 0x01, 0x01) // compact(64)
	want = append(want, m.state[:]...)
	want = append(want, m.ext[:]...)
	want = append(want, 0x10) // 4 items
	want = append(want, 0x06, 'B', 'A', 'B', 'E', 13<<2, 2, 1, 0, 0, 0, 5, 0, 0, 0, 0, 0, 0, 0)
	want = append(want, 0x04, 'F', 'R', 'N', 'K', 5<<2, 4, 9, 0, 0, 0)
	want = append(want, 0x08)
	want = append(want, 0x05, 'B', 'A', 'B', 'E', 0x01, 0x01)
	want = append(want, bytes.Repeat([]byte{0xab}, 64)...)
	if !bytes.Equal(m.ref(), want) {
		t.Fatalf("reference encoder drifted:\n ref  %x\n want %x", m.ref(), want)
	}
	reuse := mHeader{number: 7, items: []mItem{{kind: kindRuntimeEnv}}}
	cases := []mHeader{m}
	if _, ok := otherValue(nil); ok {
		cases = append(cases, otherWitnessModel(), mHeader{number: 1 << 30, items: []mItem{{kind: kindSeal, engine: [4]byte{'B', 'A', 'B', 'E'}, data: []byte{1}}, {kind: kindOther, data: bytes.Repeat([]byte{7}, 64)}, {kind: kindRuntimeEnv}}})
	}
	for _, c := range cases {
		checkHeader(t, c, &reuse)
		kit.Case("regression "+c.String(), true, "regression")
	}
	// the pre-digest inside the first item is a BABE secondary-plain digest (authority 1, slot 5)
	dec, err := types.DecodeBabePreDigest(m.items[0].data)
	if err != nil || !reflect.DeepEqual(dec, types.BabeSecondaryPlainPreDigest{AuthorityIndex: 1, SlotNumber: 5}) {
		t.Fatalf("DecodeBabePreDigest(020100000005..): %#v, %v", dec, err)
	}
	h, _ := buildHeader(m)
	if slot, err := h.SlotNumber(); err != nil || slot != 5 {
		t.Fatalf("SlotNumber = %d, %v; want 5", slot, err)
	}
}

// ---------------------------------------------------------------- oracle self-check against external constants

func mustHex(s string) []byte {
	b, err := common.HexToBytes(s)
	if err != nil {
		panic(err)
	}
	return b
}

// TestC14OracleSelfCheck validates the hand-written reference encoder against
// constants that do not come from this code base's encoder: the genesis block
// hashes of Polkadot and Kusama (public chain constants) and a digest taken
// from a live chain (the vector of the repository's TestDecodeDigest).
func TestC14OracleSelfCheck(t *testing.T) {
	defer kit.Flush()
	emptyRoot := "0x03170a2e7597b7b7e3d84c05391d139a62b157e78786d8c082f29dcf4c111314"
	for _, g := range []struct{ name, state, hash string }{
		{"polkadot", "0x29d0d972cd27cbc511e9589fcb7a4506d5eb6a9e8df205f00472e5ab354a4e17", "0x91b171bb158e2d3848fa23a9f1c25182fb8e20313b2c1eb49219da7a70ce90c3"},
		{"kusama", "0xb0006203c3a6e6bd2c6a17b1d4ae8ca49a31da0f4579da950b127774b44aef6b", "0xb0a8d493285c2df73290dfb7e61f870f17b41801197a149ca93654499ea3dafe"},
	} {
		var m mHeader
		copy(m.state[:], mustHex(g.state))
		copy(m.ext[:], mustHex(emptyRoot))
		got := kit.Blake256(m.ref())
		if !bytes.Equal(got[:], mustHex(g.hash)) {
			t.Fatalf("reference encoding of the %s genesis header hashes to %x, want %s", g.name, got, g.hash)
		}
		checkHeader(t, m, nil)
		kit.Case("selfcheck genesis "+g.name, true, "oracle-selfcheck")
	}
	if got := kit.Blake256([]byte{0}); !bytes.Equal(got[:], mustHex(emptyRoot)) {
		t.Fatalf("BLAKE2b-256(0x00) = %x", got)
	}

	// live-chain digest: pre-runtime(BABE secondary plain), consensus(BABE next epoch data, 6 authorities), seal
	vec := mustHex("0x0c0642414245340201000000ef55a50f00000000044241424549040118ca239392960473fe1bc65f94ee27d890a49c1b200c006ff5dcc525330ecc16770100000000000000b46f01874ce7abbb5220e8fd89bede0adad14c73039d91e28e881823433e723f0100000000000000d684d9176d6eb69887540c9a89fa6097adea82fc4b0ff26d1062b488f352e179010000000000000068195a71bdde49117a616424bdc60a1733e96acb1da5aeab5d268cf2a572e94101000000000000001a0575ef4ae24bdfd31f4cb5bd61239ae67c12d4e64ae51ac756044aa6ad8200010000000000000018168f2aad0081a25728961ee00627cfe35e39833c805016632bf7c14da5800901000000000000000000000000000000000000000000000000000000000000000000000000000000054241424501014625284883e564bc1e4063f5ea2b49846cdddaa3761d04f543b698c1c3ee935c40d25b869247c36c6b8a8cbbd7bb2768f560ab7c276df3c62df357a7e3b1ec8d")
	pre := mPreDigest{kind: 2, auth: 1, slot: 0x0fa555ef}
	ne := mBabeCons{kind: 1}
	for _, k := range []string{
		"0xca239392960473fe1bc65f94ee27d890a49c1b200c006ff5dcc525330ecc1677", "0xb46f01874ce7abbb5220e8fd89bede0adad14c73039d91e28e881823433e723f",
		"0xd684d9176d6eb69887540c9a89fa6097adea82fc4b0ff26d1062b488f352e179", "0x68195a71bdde49117a616424bdc60a1733e96acb1da5aeab5d268cf2a572e941",
		"0x1a0575ef4ae24bdfd31f4cb5bd61239ae67c12d4e64ae51ac756044aa6ad8200", "0x18168f2aad0081a25728961ee00627cfe35e39833c805016632bf7c14da58009"} {
		var a mAuth
		copy(a.key[:], mustHex(k))
		a.weight = 1
		ne.auths = append(ne.auths, a)
	}
	seal := mustHex("0x4625284883e564bc1e4063f5ea2b49846cdddaa3761d04f543b698c1c3ee935c40d25b869247c36c6b8a8cbbd7bb2768f560ab7c276df3c62df357a7e3b1ec8d")
	babe := [4]byte{'B', 'A', 'B', 'E'}
	items := []mItem{{kind: kindPreRuntime, engine: babe, data: pre.ref()}, {kind: kindConsensus, engine: babe, data: ne.ref()}, {kind: kindSeal, engine: babe, data: seal}}
	e := &enc{}
	e.compact(uint64(len(items)))
	for _, it := range items {
		it.ref(e)
	}
	if !bytes.Equal(e.b, vec) {
		t.Fatalf("reference encoding of the live-chain digest differs:\n ref %x\n vec %x", e.b, vec)
	}
	kit.Case("selfcheck live digest", true, "oracle-selfcheck")
}
