package grandpa

// C14, in-package part: GRANDPA network messages (vote, commit, neighbour,
// catch-up request/response), Commit, Justification and the signed payload
// (FullVote) against hand-written spec layouts. The reference side uses only
// fixed-width little-endian integers, kit.SpecCompact and enum index bytes.

import (
	"bytes"
	"fmt"
	"reflect"
	"testing"

	"github.com/ChainSafe/gossamer/dot/network"
	kit "github.com/ChainSafe/gossamer/internal/verifkit"
	"github.com/ChainSafe/gossamer/lib/common"
	"github.com/ChainSafe/gossamer/lib/crypto/ed25519"
	"github.com/ChainSafe/gossamer/pkg/scale"
	"pgregory.net/rapid"
)

type c14enc struct{ b []byte }

func (e *c14enc) raw(p []byte) *c14enc { e.b = append(e.b, p...); return e }
func (e *c14enc) u8(v byte) *c14enc    { e.b = append(e.b, v); return e }
func (e *c14enc) u32(v uint32) *c14enc {
	e.b = append(e.b, byte(v), byte(v>>8), byte(v>>16), byte(v>>24))
	return e
}
func (e *c14enc) u64(v uint64) *c14enc {
	for i := 0; i < 8; i++ {
		e.b = append(e.b, byte(v>>(8*i)))
	}
	return e
}
func (e *c14enc) compact(n int) *c14enc { e.b = append(e.b, kit.SpecCompact(uint64(n))...); return e }
func (e *c14enc) vote(v Vote) *c14enc   { return e.raw(v.Hash[:]).u32(v.Number) }
func (e *c14enc) signedVote(s SignedVote) *c14enc {
	return e.vote(s.Vote).raw(s.Signature[:]).raw(s.AuthorityID[:])
}
func (e *c14enc) signedVotes(vs []SignedVote) *c14enc {
	e.compact(len(vs))
	for _, s := range vs {
		e.signedVote(s)
	}
	return e
}

var c14Corners = []uint32{0, 1, 63, 64, 255, 256, 16383, 16384, 65536, 1<<30 - 1, 1 << 30, 1<<32 - 1}

func c14U32(t *rapid.T, name string) uint32 {
	if rapid.Bool().Draw(t, name+"Corner") {
		return rapid.SampledFrom(c14Corners).Draw(t, name)
	}
	return rapid.Uint32().Draw(t, name)
}

func c14U64(t *rapid.T, name string) uint64 {
	switch rapid.IntRange(0, 3).Draw(t, name+"Kind") {
	case 0:
		return uint64(rapid.SampledFrom(c14Corners).Draw(t, name))
	case 1:
		return rapid.SampledFrom([]uint64{1 << 32, 1<<40 + 3, 1<<56 + 0x0102030405, 1<<63 + 1, 1<<64 - 1}).Draw(t, name)
	}
	return rapid.Uint64().Draw(t, name)
}

func c14Hash(t *rapid.T, name string) (h common.Hash) {
	switch rapid.IntRange(0, 4).Draw(t, name+"Kind") {
	case 0:
	case 1:
		for i := range h {
			h[i] = 0xff
		}
	default:
		seed := rapid.Byte().Draw(t, name+"Seed")
		for i := range h {
			h[i] = seed + byte(i*13)
		}
	}
	return
}

func c14Sig(t *rapid.T, name string) (s [64]byte) {
	seed := rapid.Byte().Draw(t, name)
	for i := range s {
		s[i] = seed ^ byte(i*5+1)
	}
	return
}

func c14Vote(t *rapid.T, name string) Vote {
	return Vote{Hash: c14Hash(t, name+"Hash"), Number: c14U32(t, name+"Num")}
}

func c14SignedVote(t *rapid.T, name string) SignedVote {
	return SignedVote{Vote: c14Vote(t, name), Signature: c14Sig(t, name+"Sig"), AuthorityID: ed25519.PublicKeyBytes(c14Hash(t, name+"ID"))}
}

// lists are nil when empty so that reflect.DeepEqual can be used after the same
// normalisation of the decoded value (the encoding cannot tell nil from empty).
func c14SignedVotes(t *rapid.T, name string) []SignedVote {
	n := rapid.SampledFrom([]int{0, 1, 2, 3, 5}).Draw(t, name+"N")
	var out []SignedVote
	for i := 0; i < n; i++ {
		out = append(out, c14SignedVote(t, name))
	}
	return out
}

func c14NormSV(v []SignedVote) []SignedVote {
	if len(v) == 0 {
		return nil
	}
	return v
}

// c14Decode runs the production decoder of incoming GRANDPA notifications.
func c14Decode(t *rapid.T, ref []byte) GrandpaMessage {
	m, err := decodeMessage(&network.ConsensusMessage{Data: ref})
	if err != nil {
		t.Fatalf("decodeMessage(%x): %v", ref, err)
	}
	return m
}

func c14Encode(t *rapid.T, m GrandpaMessage, ref []byte) {
	cm, err := m.ToConsensusMessage()
	if err != nil {
		t.Fatalf("ToConsensusMessage(%+v): %v", m, err)
	}
	if !bytes.Equal(cm.Data, ref) {
		t.Fatalf("%T %+v:\n impl %x\n spec %x", m, m, cm.Data, ref)
	}
}

func TestC14GrandpaMessages(t *testing.T) {
	defer kit.Flush()
	rapid.Check(t, func(t *rapid.T) {
		e := &c14enc{}
		switch rapid.IntRange(0, 7).Draw(t, "family") {
		case 0: // vote message: 0, round, set id, stage, vote, signature, authority id
			stage := Subround(rapid.IntRange(0, 2).Draw(t, "stage"))
			v := c14SignedVote(t, "v")
			msg := &VoteMessage{Round: c14U64(t, "round"), SetID: c14U64(t, "setID"), Message: SignedMessage{
				Stage: stage, BlockHash: v.Vote.Hash, Number: v.Vote.Number, Signature: v.Signature, AuthorityID: v.AuthorityID}}
			e.u8(0).u64(msg.Round).u64(msg.SetID).u8(byte(stage)).signedVote(v)
			c14Encode(t, msg, e.b)
			dec, ok := c14Decode(t, e.b).(*VoteMessage)
			if !ok || !reflect.DeepEqual(dec, msg) {
				t.Fatalf("decoded vote message %x = %+v, want %+v", e.b, dec, msg)
			}
			kit.Case(fmt.Sprintf("vote-msg %x", e.b), msg.Round != 0 || msg.SetID != 0, fmt.Sprintf("msg:vote/stage=%d", stage))
		case 1: // commit message: 1, round, set id, target vote, precommits, (signature, id) list
			msg := &CommitMessage{Round: c14U64(t, "round"), SetID: c14U64(t, "setID"), Vote: c14Vote(t, "target")}
			n := rapid.SampledFrom([]int{0, 1, 2, 3, 5}).Draw(t, "nPrecommits")
			// the two lists are independent on the wire; real commits have equal lengths, but a
			// decoder must cope with any, so draw the second length separately sometimes
			m := n
			if rapid.IntRange(0, 4).Draw(t, "unequal") == 0 {
				m = rapid.IntRange(0, 4).Draw(t, "nAuthData")
			}
			for i := 0; i < n; i++ {
				msg.Precommits = append(msg.Precommits, c14Vote(t, "pc"))
			}
			for i := 0; i < m; i++ {
				msg.AuthData = append(msg.AuthData, AuthData{Signature: c14Sig(t, "adSig"), AuthorityID: ed25519.PublicKeyBytes(c14Hash(t, "adID"))})
			}
			e.u8(1).u64(msg.Round).u64(msg.SetID).vote(msg.Vote).compact(n)
			for _, p := range msg.Precommits {
				e.vote(p)
			}
			e.compact(m)
			for _, a := range msg.AuthData {
				e.raw(a.Signature[:]).raw(a.AuthorityID[:])
			}
			c14Encode(t, msg, e.b)
			dec, ok := c14Decode(t, e.b).(*CommitMessage)
			if !ok {
				t.Fatalf("decoded commit message %x has wrong type", e.b)
			}
			if len(dec.Precommits) == 0 {
				dec.Precommits = nil
			}
			if len(dec.AuthData) == 0 {
				dec.AuthData = nil
			}
			if !reflect.DeepEqual(dec, msg) {
				t.Fatalf("decoded commit message %x = %+v, want %+v", e.b, dec, msg)
			}
			kit.Case(fmt.Sprintf("commit-msg %x", e.b), n > 0, "msg:commit", fmt.Sprintf("commit-precommits=%d", n))
		case 2: // neighbour message: 2, version 1, round, set id, number
			msg := &NeighbourPacketV1{Round: c14U64(t, "round"), SetID: c14U64(t, "setID"), Number: c14U32(t, "number")}
			e.u8(2).u8(1).u64(msg.Round).u64(msg.SetID).u32(msg.Number)
			c14Encode(t, msg, e.b)
			dec, ok := c14Decode(t, e.b).(*NeighbourPacketV1)
			if !ok || !reflect.DeepEqual(dec, msg) {
				t.Fatalf("decoded neighbour message %x = %+v, want %+v", e.b, dec, msg)
			}
			kit.Case(fmt.Sprintf("neighbour-msg %x", e.b), msg.Round != 0 || msg.Number != 0, "msg:neighbour")
		case 3: // catch-up request: 3, round, set id
			msg := &CatchUpRequest{Round: c14U64(t, "round"), SetID: c14U64(t, "setID")}
			e.u8(3).u64(msg.Round).u64(msg.SetID)
			c14Encode(t, msg, e.b)
			dec, ok := c14Decode(t, e.b).(*CatchUpRequest)
			if !ok || !reflect.DeepEqual(dec, msg) {
				t.Fatalf("decoded catch-up request %x = %+v, want %+v", e.b, dec, msg)
			}
			kit.Case(fmt.Sprintf("catchup-req %x", e.b), msg.Round != 0 || msg.SetID != 0, "msg:catch-up-request")
		case 4: // catch-up response: 4, set id, round, prevotes, precommits, base hash, base number
			msg := &CatchUpResponse{SetID: c14U64(t, "setID"), Round: c14U64(t, "round"),
				PreVoteJustification: c14SignedVotes(t, "pv"), PreCommitJustification: c14SignedVotes(t, "pc"),
				Hash: c14Hash(t, "base"), Number: c14U32(t, "baseNum")}
			e.u8(4).u64(msg.SetID).u64(msg.Round).signedVotes(msg.PreVoteJustification).signedVotes(msg.PreCommitJustification).raw(msg.Hash[:]).u32(msg.Number)
			c14Encode(t, msg, e.b)
			dec, ok := c14Decode(t, e.b).(*CatchUpResponse)
			if !ok {
				t.Fatalf("decoded catch-up response %x has wrong type", e.b)
			}
			dec.PreVoteJustification, dec.PreCommitJustification = c14NormSV(dec.PreVoteJustification), c14NormSV(dec.PreCommitJustification)
			if !reflect.DeepEqual(dec, msg) {
				t.Fatalf("decoded catch-up response %x = %+v, want %+v", e.b, dec, msg)
			}
			kit.Case(fmt.Sprintf("catchup-resp %x", e.b), len(msg.PreVoteJustification)+len(msg.PreCommitJustification) > 0, "msg:catch-up-response",
				fmt.Sprintf("catchup-prevotes=%d", len(msg.PreVoteJustification)))
		case 5: // justification: round, target hash, target number, signed precommits
			j := Justification{Round: c14U64(t, "round"), Commit: Commit{Hash: c14Hash(t, "target"), Number: c14U32(t, "targetNum"), Precommits: c14SignedVotes(t, "pc")}}
			e.u64(j.Round).raw(j.Commit.Hash[:]).u32(j.Commit.Number).signedVotes(j.Commit.Precommits)
			got, err := scale.Marshal(j)
			if err != nil || !bytes.Equal(got, e.b) {
				t.Fatalf("Justification %+v:\n impl %x (err %v)\n spec %x", j, got, err, e.b)
			}
			var dec Justification
			if err := scale.Unmarshal(e.b, &dec); err != nil {
				t.Fatalf("decoding justification %x: %v", e.b, err)
			}
			dec.Commit.Precommits = c14NormSV(dec.Commit.Precommits)
			if !reflect.DeepEqual(dec, j) {
				t.Fatalf("decoded justification %x = %+v, want %+v", e.b, dec, j)
			}
			nj := newJustification(j.Round, j.Commit.Hash, j.Commit.Number, j.Commit.Precommits)
			if got, err := scale.Marshal(*nj); err != nil || !bytes.Equal(got, e.b) {
				t.Fatalf("newJustification: impl %x (err %v), spec %x", got, err, e.b)
			}
			kit.Case(fmt.Sprintf("justification %x", e.b), len(j.Commit.Precommits) > 0, "justification", fmt.Sprintf("justification-precommits=%d", len(j.Commit.Precommits)))
		case 6: // commit: target hash, target number, signed precommits
			c := Commit{Hash: c14Hash(t, "target"), Number: c14U32(t, "targetNum"), Precommits: c14SignedVotes(t, "pc")}
			e.raw(c.Hash[:]).u32(c.Number).signedVotes(c.Precommits)
			got, err := scale.Marshal(c)
			if err != nil || !bytes.Equal(got, e.b) {
				t.Fatalf("Commit %+v:\n impl %x (err %v)\n spec %x", c, got, err, e.b)
			}
			var dec Commit
			if err := scale.Unmarshal(e.b, &dec); err != nil {
				t.Fatalf("decoding commit %x: %v", e.b, err)
			}
			dec.Precommits = c14NormSV(dec.Precommits)
			if !reflect.DeepEqual(dec, c) {
				t.Fatalf("decoded commit %x = %+v, want %+v", e.b, dec, c)
			}
			// compact form and back
			pcs, ad := justificationToCompact(c.Precommits)
			back, err := compactToJustification(pcs, ad)
			if err != nil || !reflect.DeepEqual(c14NormSV(back), c.Precommits) {
				t.Fatalf("justificationToCompact/compactToJustification changed %+v into %+v (err %v)", c.Precommits, back, err)
			}
			kit.Case(fmt.Sprintf("commit %x", e.b), len(c.Precommits) > 0, "commit", fmt.Sprintf("commit-signed-precommits=%d", len(c.Precommits)))
		case 7: // signed payload: (stage, vote), round, set id
			fv := FullVote{Stage: Subround(rapid.IntRange(0, 2).Draw(t, "stage")), Vote: c14Vote(t, "v"), Round: c14U64(t, "round"), SetID: c14U64(t, "setID")}
			e.u8(byte(fv.Stage)).vote(fv.Vote).u64(fv.Round).u64(fv.SetID)
			got, err := scale.Marshal(fv)
			if err != nil || !bytes.Equal(got, e.b) {
				t.Fatalf("FullVote %+v:\n impl %x (err %v)\n spec %x", fv, got, err, e.b)
			}
			var dec FullVote
			if err := scale.Unmarshal(e.b, &dec); err != nil || !reflect.DeepEqual(dec, fv) {
				t.Fatalf("decoded full vote %x = %+v (err %v), want %+v", e.b, dec, err, fv)
			}
			kit.Case(fmt.Sprintf("full-vote %x", e.b), fv.Round != 0 || fv.Vote.Number != 0, fmt.Sprintf("signed-payload/stage=%d", fv.Stage))
		}
	})
}
