package c14

// Reference side of C14: byte layouts written by hand from the Polkadot host
// specification (SCALE: fixed-width little-endian integers, compact lengths via
// kit.SpecCompact, enum index bytes) and from the api.v1 protobuf schema (own
// wire encoder + parser). Nothing in this file uses pkg/scale or
// google.golang.org/protobuf.

import (
	"bytes"
	"fmt"
	"sort"
	"strings"

	kit "github.com/ChainSafe/gossamer/internal/verifkit"
	"pgregory.net/rapid"
)

// ---------------------------------------------------------------- SCALE writer

type enc struct{ b []byte }

func (e *enc) raw(p []byte) *enc { e.b = append(e.b, p...); return e }
func (e *enc) u8(v byte) *enc    { e.b = append(e.b, v); return e }
func (e *enc) u32(v uint32) *enc {
	e.b = append(e.b, byte(v), byte(v>>8), byte(v>>16), byte(v>>24))
	return e
}
func (e *enc) u64(v uint64) *enc {
	for i := 0; i < 8; i++ {
		e.b = append(e.b, byte(v>>(8*i)))
	}
	return e
}
func (e *enc) compact(n uint64) *enc { e.b = append(e.b, kit.SpecCompact(n)...); return e }

// vec: a byte vector, compact length then the bytes.
func (e *enc) vec(p []byte) *enc { e.compact(uint64(len(p))); return e.raw(p) }

// ---------------------------------------------------------------- models

// Digest item kinds = the enum indices of the specification.
const (
	kindOther      = 0
	kindConsensus  = 4
	kindSeal       = 5
	kindPreRuntime = 6
	kindRuntimeEnv = 8
)

type mItem struct {
	kind   int
	engine [4]byte
	data   []byte
	what   string // how data was made (label)
}

func (it mItem) ref(e *enc) {
	e.u8(byte(it.kind))
	switch it.kind {
	case kindOther:
		e.vec(it.data)
	case kindRuntimeEnv:
	default:
		e.raw(it.engine[:]).vec(it.data)
	}
}

func (it mItem) String() string {
	d := fmt.Sprintf("%x", it.data)
	if len(d) > 24 {
		d = fmt.Sprintf("%s..(%d)", d[:16], len(it.data))
	}
	switch it.kind {
	case kindOther:
		return "other:" + d
	case kindRuntimeEnv:
		return "envupd"
	case kindConsensus:
		return fmt.Sprintf("cons[%s/%s]:%s", it.engine[:], it.what, d)
	case kindSeal:
		return fmt.Sprintf("seal[%s]:%s", it.engine[:], d)
	default:
		return fmt.Sprintf("pre[%s/%s]:%s", it.engine[:], it.what, d)
	}
}

type mHeader struct {
	parent, state, ext [32]byte
	number             uint32
	items              []mItem
}

func (h mHeader) ref() []byte {
	e := &enc{}
	e.raw(h.parent[:]).compact(uint64(h.number)).raw(h.state[:]).raw(h.ext[:])
	e.compact(uint64(len(h.items)))
	for _, it := range h.items {
		it.ref(e)
	}
	return e.b
}

func (h mHeader) hasOther() bool {
	for _, it := range h.items {
		if it.kind == kindOther {
			return true
		}
	}
	return false
}

func (h mHeader) String() string {
	var sb strings.Builder
	fmt.Fprintf(&sb, "hdr{p=%x.. n=%d s=%x.. e=%x.. [", h.parent[:2], h.number, h.state[:2], h.ext[:2])
	for i, it := range h.items {
		if i > 0 {
			sb.WriteString(" ")
		}
		sb.WriteString(it.String())
	}
	sb.WriteString("]}")
	return sb.String()
}

// BABE pre-digests (enum indices 1, 2, 3).
type mPreDigest struct {
	kind   int // 1 primary, 2 secondary plain, 3 secondary VRF
	auth   uint32
	slot   uint64
	output [32]byte
	proof  [64]byte
}

func (p mPreDigest) ref() []byte {
	e := &enc{}
	e.u8(byte(p.kind)).u32(p.auth).u64(p.slot)
	if p.kind != 2 {
		e.raw(p.output[:]).raw(p.proof[:])
	}
	return e.b
}

type mAuth struct {
	key    [32]byte
	weight uint64
}

func refAuths(e *enc, as []mAuth) {
	e.compact(uint64(len(as)))
	for _, a := range as {
		e.raw(a.key[:]).u64(a.weight)
	}
}

// BABE consensus digest: 1 next epoch data, 2 on disabled, 3 next config data (V1 = inner index 1).
type mBabeCons struct {
	kind       int
	auths      []mAuth
	randomness [32]byte
	disabled   uint32
	c1, c2     uint64
	secondary  byte
}

func (c mBabeCons) ref() []byte {
	e := &enc{}
	e.u8(byte(c.kind))
	switch c.kind {
	case 1:
		refAuths(e, c.auths)
		e.raw(c.randomness[:])
	case 2:
		e.u32(c.disabled)
	case 3:
		e.u8(1).u64(c.c1).u64(c.c2).u8(c.secondary)
	}
	return e.b
}

// GRANDPA consensus digest: 1 scheduled change, 2 forced change, 3 on disabled, 4 pause, 5 resume.
type mGrandpaCons struct {
	kind     int
	auths    []mAuth
	delay    uint32
	best     uint32
	disabled uint64
}

func (c mGrandpaCons) ref() []byte {
	e := &enc{}
	e.u8(byte(c.kind))
	switch c.kind {
	case 1:
		refAuths(e, c.auths)
		e.u32(c.delay)
	case 2:
		e.u32(c.best)
		refAuths(e, c.auths)
		e.u32(c.delay)
	case 3:
		e.u64(c.disabled)
	case 4, 5:
		e.u32(c.delay)
	}
	return e.b
}

type mVote struct {
	hash   [32]byte
	number uint32
}

func (v mVote) ref(e *enc) { e.raw(v.hash[:]).u32(v.number) }

type mSignedVote struct {
	vote mVote
	sig  [64]byte
	id   [32]byte
}

func (s mSignedVote) ref(e *enc) { s.vote.ref(e); e.raw(s.sig[:]).raw(s.id[:]) }

// ---------------------------------------------------------------- generators

func genHash(t *rapid.T, name string) (h [32]byte) {
	switch rapid.IntRange(0, 5).Draw(t, name+"Kind") {
	case 0: // zero
	case 1:
		for i := range h {
			h[i] = 0xff
		}
	default:
		seed := rapid.Byte().Draw(t, name+"Seed")
		for i := range h {
			h[i] = seed + byte(i*13)
		}
	}
	return
}

func genSig(t *rapid.T, name string) (s [64]byte) {
	seed := rapid.Byte().Draw(t, name)
	for i := range s {
		s[i] = seed ^ byte(i*5+1)
	}
	return
}

var numberCorners = []uint32{0, 1, 63, 64, 255, 256, 16383, 16384, 65535, 65536, 1<<30 - 1, 1 << 30, 1<<31 + 7, 1<<32 - 1}

// genU32 draws a 32-bit number biased to the compact-mode and byte boundaries.
func genU32(t *rapid.T, name string) uint32 {
	if rapid.Bool().Draw(t, name+"Corner") {
		return rapid.SampledFrom(numberCorners).Draw(t, name)
	}
	return rapid.Uint32().Draw(t, name)
}

func genU64(t *rapid.T, name string) uint64 {
	switch rapid.IntRange(0, 3).Draw(t, name+"Kind") {
	case 0:
		return uint64(rapid.SampledFrom(numberCorners).Draw(t, name))
	case 1:
		return rapid.SampledFrom([]uint64{1 << 32, 1<<40 + 3, 1<<56 + 0x0102030405, 1<<63 + 1, 1<<64 - 1}).Draw(t, name)
	}
	return rapid.Uint64().Draw(t, name)
}

// genBytes draws opaque data; lengths sit around the compact boundaries 63/64
// and (rarely) 16383/16384.
func genBytes(t *rapid.T, name string) []byte {
	var n int
	switch k := rapid.IntRange(0, 19).Draw(t, name+"LenKind"); {
	case k == 19:
		n = rapid.SampledFrom([]int{16383, 16384, 16400}).Draw(t, name+"Len")
	case k >= 15:
		n = rapid.SampledFrom([]int{0, 1, 62, 63, 64, 65, 127, 128, 255, 256}).Draw(t, name+"Len")
	default:
		n = rapid.IntRange(0, 40).Draw(t, name+"Len")
	}
	seed := rapid.Byte().Draw(t, name+"Seed")
	b := make([]byte, n)
	for i := range b {
		b[i] = seed + byte(i*3)
	}
	return b
}

func genAuths(t *rapid.T, name string) []mAuth {
	n := rapid.SampledFrom([]int{0, 1, 1, 2, 3, 4}).Draw(t, name+"N")
	as := make([]mAuth, n)
	for i := range as {
		as[i] = mAuth{genHash(t, name+"Key"), genU64(t, name+"W")}
	}
	return as
}

func genPreDigest(t *rapid.T) mPreDigest {
	p := mPreDigest{kind: rapid.IntRange(1, 3).Draw(t, "preKind"), auth: genU32(t, "auth"), slot: genU64(t, "slot")}
	if p.kind != 2 {
		p.output = genHash(t, "vrfOut")
		p.proof = genSig(t, "vrfProof")
	}
	return p
}

func genBabeCons(t *rapid.T) mBabeCons {
	c := mBabeCons{kind: rapid.IntRange(1, 3).Draw(t, "babeConsKind")}
	switch c.kind {
	case 1:
		c.auths = genAuths(t, "auth")
		c.randomness = genHash(t, "rand")
	case 2:
		c.disabled = genU32(t, "disabled")
	case 3:
		c.c1, c.c2 = genU64(t, "c1"), genU64(t, "c2")
		c.secondary = rapid.SampledFrom([]byte{0, 1, 2, 3, 255}).Draw(t, "secondary")
	}
	return c
}

func genGrandpaCons(t *rapid.T) mGrandpaCons {
	c := mGrandpaCons{kind: rapid.IntRange(1, 5).Draw(t, "grandpaConsKind")}
	switch c.kind {
	case 1:
		c.auths, c.delay = genAuths(t, "auth"), genU32(t, "delay")
	case 2:
		c.best, c.auths, c.delay = genU32(t, "best"), genAuths(t, "auth"), genU32(t, "delay")
	case 3:
		c.disabled = genU64(t, "disabled")
	default:
		c.delay = genU32(t, "delay")
	}
	return c
}

var engines = [][4]byte{{'B', 'A', 'B', 'E'}, {'F', 'R', 'N', 'K'}, {'B', 'E', 'E', 'F'}, {'a', 'u', 'r', 'a'}, {0, 0, 0, 0}, {0xff, 1, 2, 3}}

// genItem draws one digest item. allowOther=false never yields an Other item.
func genItem(t *rapid.T, allowOther bool) mItem {
	kinds := []int{kindPreRuntime, kindPreRuntime, kindConsensus, kindConsensus, kindSeal, kindSeal, kindRuntimeEnv}
	if allowOther {
		kinds = append(kinds, kindOther, kindOther)
	}
	it := mItem{kind: rapid.SampledFrom(kinds).Draw(t, "itemKind")}
	if it.kind == kindRuntimeEnv {
		return it
	}
	if it.kind == kindOther {
		it.data = genBytes(t, "otherData")
		return it
	}
	it.engine = engines[rapid.SampledFrom([]int{0, 0, 0, 1, 1, 2, 3, 4, 5}).Draw(t, "engine")]
	typed := rapid.IntRange(0, 3).Draw(t, "typed") > 0
	switch {
	case typed && it.kind == kindPreRuntime && it.engine == engines[0]:
		it.data, it.what = genPreDigest(t).ref(), "babe-pre"
	case typed && it.kind == kindConsensus && it.engine == engines[0]:
		it.data, it.what = genBabeCons(t).ref(), "babe-cons"
	case typed && it.kind == kindConsensus && it.engine == engines[1]:
		it.data, it.what = genGrandpaCons(t).ref(), "grandpa-cons"
	case typed && it.kind == kindSeal:
		s := genSig(t, "sealSig")
		it.data, it.what = s[:], "sig64"
	default:
		it.data, it.what = genBytes(t, "itemData"), "opaque"
	}
	return it
}

func genHeader(t *rapid.T, allowOther bool) mHeader {
	h := mHeader{parent: genHash(t, "parent"), state: genHash(t, "state"), ext: genHash(t, "ext"), number: genU32(t, "number")}
	n := rapid.SampledFrom([]int{0, 1, 2, 2, 3, 3, 4, 5, 6}).Draw(t, "nItems")
	for i := 0; i < n; i++ {
		h.items = append(h.items, genItem(t, allowOther))
	}
	return h
}

func genVote(t *rapid.T, name string) mVote {
	return mVote{genHash(t, name+"Hash"), genU32(t, name+"Num")}
}

func genSignedVote(t *rapid.T, name string) mSignedVote {
	return mSignedVote{genVote(t, name), genSig(t, name+"Sig"), genHash(t, name+"ID")}
}

func genSignedVotes(t *rapid.T, name string) []mSignedVote {
	n := rapid.SampledFrom([]int{0, 1, 2, 3, 5}).Draw(t, name+"N")
	out := make([]mSignedVote, n)
	for i := range out {
		out[i] = genSignedVote(t, name)
	}
	return out
}

// ---------------------------------------------------------------- protobuf wire (api.v1)

type pbField struct {
	num  int
	wt   int // 0 varint, 2 length-delimited
	v    uint64
	data []byte
}

func pbVarint(b []byte, v uint64) []byte {
	for v >= 0x80 {
		b = append(b, byte(v)|0x80)
		v >>= 7
	}
	return append(b, byte(v))
}

func pbEmit(fs []pbField) []byte {
	var b []byte
	for _, f := range fs {
		b = pbVarint(b, uint64(f.num)<<3|uint64(f.wt))
		if f.wt == 0 {
			b = pbVarint(b, f.v)
		} else {
			b = pbVarint(b, uint64(len(f.data)))
			b = append(b, f.data...)
		}
	}
	return b
}

func pbReadVarint(b []byte) (uint64, []byte, error) {
	var v uint64
	for i := 0; i < len(b) && i < 10; i++ {
		v |= uint64(b[i]&0x7f) << (7 * i)
		if b[i] < 0x80 {
			return v, b[i+1:], nil
		}
	}
	return 0, nil, fmt.Errorf("bad varint")
}

// pbParse splits a message into its fields (only wire types 0 and 2 occur in api.v1).
func pbParse(b []byte) ([]pbField, error) {
	var fs []pbField
	for len(b) > 0 {
		tag, rest, err := pbReadVarint(b)
		if err != nil {
			return nil, err
		}
		f := pbField{num: int(tag >> 3), wt: int(tag & 7)}
		switch f.wt {
		case 0:
			f.v, rest, err = pbReadVarint(rest)
			if err != nil {
				return nil, err
			}
		case 2:
			var n uint64
			n, rest, err = pbReadVarint(rest)
			if err != nil || n > uint64(len(rest)) {
				return nil, fmt.Errorf("bad length")
			}
			f.data, rest = rest[:n], rest[n:]
		default:
			return nil, fmt.Errorf("unexpected wire type %d (field %d)", f.wt, f.num)
		}
		fs = append(fs, f)
		b = rest
	}
	return fs, nil
}

// pbCanon re-emits a message with its fields in ascending field-number order
// (stable, so repeated fields keep their order). Protobuf does not fix the
// order in which different fields are written, so implementation output is
// compared after this normalisation; everything else (tags, wire types,
// varints, omitted defaults) must match the reference byte for byte.
func pbCanon(b []byte, nested map[int]bool) ([]byte, error) {
	fs, err := pbParse(b)
	if err != nil {
		return nil, err
	}
	for i := range fs {
		if fs[i].wt == 2 && nested[fs[i].num] {
			fs[i].data, err = pbCanon(fs[i].data, nil)
			if err != nil {
				return nil, err
			}
		}
	}
	sort.SliceStable(fs, func(i, j int) bool { return fs[i].num < fs[j].num })
	return pbEmit(fs), nil
}

type mRequest struct {
	fields  byte
	byHash  bool
	hash    [32]byte
	number  uint32
	descend bool
	max     *uint32
}

func (r mRequest) ref() []byte {
	var fs []pbField
	if r.fields != 0 {
		fs = append(fs, pbField{num: 1, v: uint64(r.fields) << 24})
	}
	if r.byHash {
		fs = append(fs, pbField{num: 2, wt: 2, data: r.hash[:]})
	} else {
		n := r.number
		fs = append(fs, pbField{num: 3, wt: 2, data: []byte{byte(n), byte(n >> 8), byte(n >> 16), byte(n >> 24)}})
	}
	if r.descend {
		fs = append(fs, pbField{num: 5, v: 1})
	}
	if r.max != nil && *r.max != 0 {
		fs = append(fs, pbField{num: 6, v: uint64(*r.max)})
	}
	return pbEmit(fs)
}

func (r mRequest) String() string {
	s := fmt.Sprintf("req{f=%#x ", r.fields)
	if r.byHash {
		s += fmt.Sprintf("hash=%x..", r.hash[:3])
	} else {
		s += fmt.Sprintf("num=%d", r.number)
	}
	if r.descend {
		s += " desc"
	} else {
		s += " asc"
	}
	if r.max != nil {
		s += fmt.Sprintf(" max=%d", *r.max)
	}
	return s + "}"
}

// mBlockData: presence flags and contents of one block of a response.
type mBlockData struct {
	hash       [32]byte
	header     *mHeader
	body       *[][]byte // nil absent; may be empty
	receipt    *[]byte
	msgQueue   *[]byte
	justificat *[]byte
}

func (d mBlockData) ref() []byte {
	fs := []pbField{{num: 1, wt: 2, data: d.hash[:]}}
	if d.header != nil {
		fs = append(fs, pbField{num: 2, wt: 2, data: d.header.ref()})
	}
	if d.body != nil {
		for _, x := range *d.body {
			fs = append(fs, pbField{num: 3, wt: 2, data: (&enc{}).vec(x).b})
		}
	}
	if d.receipt != nil && len(*d.receipt) > 0 {
		fs = append(fs, pbField{num: 4, wt: 2, data: *d.receipt})
	}
	if d.msgQueue != nil && len(*d.msgQueue) > 0 {
		fs = append(fs, pbField{num: 5, wt: 2, data: *d.msgQueue})
	}
	if d.justificat != nil {
		if len(*d.justificat) > 0 {
			fs = append(fs, pbField{num: 6, wt: 2, data: *d.justificat})
		} else {
			fs = append(fs, pbField{num: 7, v: 1})
		}
	}
	return pbEmit(fs)
}

func optStr(p *[]byte) string {
	if p == nil {
		return "-"
	}
	if len(*p) == 0 {
		return "empty"
	}
	return fmt.Sprintf("%d", len(*p))
}

func (d mBlockData) String() string {
	s := fmt.Sprintf("bd{%x.. ", d.hash[:2])
	if d.header != nil {
		s += d.header.String()
	} else {
		s += "hdr-"
	}
	if d.body != nil {
		s += " body["
		for _, x := range *d.body {
			s += fmt.Sprintf("%d,", len(x))
		}
		s += "]"
	} else {
		s += " body-"
	}
	return s + " r=" + optStr(d.receipt) + " q=" + optStr(d.msgQueue) + " j=" + optStr(d.justificat) + "}"
}

func refResponse(bds []mBlockData) []byte {
	var fs []pbField
	for _, d := range bds {
		fs = append(fs, pbField{num: 1, wt: 2, data: d.ref()})
	}
	return pbEmit(fs)
}

func genOptBytes(t *rapid.T, name string) *[]byte {
	switch rapid.IntRange(0, 2).Draw(t, name+"Presence") {
	case 0:
		return nil
	case 1:
		b := []byte{}
		return &b
	}
	b := genBytes(t, name)
	if len(b) == 0 {
		b = []byte{7}
	}
	return &b
}

func genExtrinsics(t *rapid.T) [][]byte {
	n := rapid.SampledFrom([]int{0, 1, 1, 2, 3, 5}).Draw(t, "nExt")
	out := make([][]byte, n)
	for i := range out {
		out[i] = genBytes(t, "ext")
	}
	return out
}

func genBlockData(t *rapid.T) mBlockData {
	d := mBlockData{hash: genHash(t, "bdHash")}
	if rapid.IntRange(0, 3).Draw(t, "hasHeader") > 0 {
		h := genHeader(t, false)
		d.header = &h
	}
	if rapid.IntRange(0, 3).Draw(t, "hasBody") > 0 {
		b := genExtrinsics(t)
		d.body = &b
	}
	d.receipt = genOptBytes(t, "receipt")
	d.msgQueue = genOptBytes(t, "msgQueue")
	d.justificat = genOptBytes(t, "justification")
	return d
}

// hb prints as hex with any verb, shortened in the middle when long (failure messages only).
type hb []byte

func (b hb) Format(f fmt.State, _ rune) {
	if len(b) <= 300 {
		fmt.Fprintf(f, "%x", []byte(b))
		return
	}
	fmt.Fprintf(f, "%x...(%d bytes)...%x", []byte(b[:200]), len(b), []byte(b[len(b)-40:]))
}

var _ = bytes.Equal
