package c14

// internal/primitives/consensus/grandpa: commit, signed message, justification
// (with vote ancestries), scheduled change and the localised signing payload,
// instantiated as on Polkadot (hash = H256, block number = u32).

import (
	"bytes"
	"fmt"
	"testing"

	clientgrandpa "github.com/ChainSafe/gossamer/internal/client/consensus/grandpa"
	pgrandpa "github.com/ChainSafe/gossamer/internal/primitives/consensus/grandpa"
	"github.com/ChainSafe/gossamer/internal/primitives/core/hash"
	"github.com/ChainSafe/gossamer/internal/primitives/runtime"
	"github.com/ChainSafe/gossamer/internal/primitives/runtime/generic"
	kit "github.com/ChainSafe/gossamer/internal/verifkit"
	fg "github.com/ChainSafe/gossamer/pkg/finality-grandpa"
	"github.com/ChainSafe/gossamer/pkg/scale"
	"pgregory.net/rapid"
)

type (
	pHash   = hash.H256
	pNum    = uint32
	pSigned = fg.SignedPrecommit[pHash, pNum, pgrandpa.AuthoritySignature, pgrandpa.AuthorityID]
)

func toPSigned(s mSignedVote) pSigned {
	return pSigned{
		Precommit: fg.Precommit[pHash, pNum]{TargetHash: pHash(s.vote.hash[:]), TargetNumber: s.vote.number},
		Signature: pgrandpa.AuthoritySignature(s.sig),
		ID:        pgrandpa.AuthorityID(s.id),
	}
}

func refSignedVotes(e *enc, vs []mSignedVote) {
	e.compact(uint64(len(vs)))
	for _, s := range vs {
		s.ref(e)
	}
}

// sameH256 compares a decoded H256 with 32 expected bytes. hash.H256 decodes 32
// zero bytes to the empty string (same encoding, different Go value; nothing
// in the property fixes the Go representation), so "" is accepted for zero.
func sameH256(h pHash, want [32]byte) bool {
	var got [32]byte
	copy(got[:], h.Bytes())
	return got == want && (len(h) == 32 || (len(h) == 0 && want == [32]byte{}))
}

func samePSigned(got []pSigned, want []mSignedVote) error {
	if len(got) != len(want) {
		return fmt.Errorf("%d precommits, want %d", len(got), len(want))
	}
	for i, w := range want {
		g := got[i]
		if !sameH256(g.Precommit.TargetHash, w.vote.hash) || g.Precommit.TargetNumber != w.vote.number ||
			[64]byte(g.Signature) != w.sig || [32]byte(g.ID) != w.id {
			return fmt.Errorf("precommit %d = %+v, want %+v", i, g, w)
		}
	}
	return nil
}

func TestC14Primitives(t *testing.T) {
	defer kit.Flush()
	rapid.Check(t, func(t *rapid.T) {
		e := &enc{}
		switch rapid.IntRange(0, 4).Draw(t, "family") {
		case 0: // commit: target hash, target number, signed precommits
			target := genVote(t, "target")
			pcs := genSignedVotes(t, "pc")
			target.ref(e)
			refSignedVotes(e, pcs)
			c := pgrandpa.Commit[pHash, pNum]{TargetHash: pHash(target.hash[:]), TargetNumber: target.number}
			for _, s := range pcs {
				c.Precommits = append(c.Precommits, toPSigned(s))
			}
			got, err := scale.Marshal(c)
			if err != nil || !bytes.Equal(got, e.b) {
				t.Fatalf("primitives Commit %+v:\n impl %x (err %v)\n spec %x", c, hb(got), err, hb(e.b))
			}
			var dec pgrandpa.Commit[pHash, pNum]
			if err := scale.Unmarshal(e.b, &dec); err != nil {
				t.Fatalf("decoding primitives commit %x: %v", hb(e.b), err)
			}
			if !sameH256(dec.TargetHash, target.hash) || dec.TargetNumber != target.number {
				t.Fatalf("decoded commit target %v/%d, want %x/%d", dec.TargetHash, dec.TargetNumber, target.hash, target.number)
			}
			if err := samePSigned(dec.Precommits, pcs); err != nil {
				t.Fatalf("decoded commit %x: %v", hb(e.b), err)
			}
			if re, err := scale.Marshal(dec); err != nil || !bytes.Equal(re, e.b) {
				t.Fatalf("re-encoding commit: %x (err %v), want %x", hb(re), err, hb(e.b))
			}
			kit.Case(fmt.Sprintf("prim-commit %x", hb(e.b)), len(pcs) > 0, "prim:commit", fmt.Sprintf("prim-commit-precommits=%d", len(pcs)))
		case 1: // signed message: enum {0 prevote, 1 precommit, 2 primary propose}, signature, id
			s := genSignedVote(t, "sm")
			stage := rapid.IntRange(0, 2).Draw(t, "stage")
			e.u8(byte(stage))
			s.ref(e)
			h, n := pHash(s.vote.hash[:]), s.vote.number
			var msg fg.Message[pHash, pNum]
			switch stage {
			case 0:
				msg = fg.NewMessage(fg.Prevote[pHash, pNum]{TargetHash: h, TargetNumber: n})
			case 1:
				msg = fg.NewMessage(fg.Precommit[pHash, pNum]{TargetHash: h, TargetNumber: n})
			case 2:
				msg = fg.NewMessage(fg.PrimaryPropose[pHash, pNum]{TargetHash: h, TargetNumber: n})
			}
			sm := pgrandpa.SignedMessage[pHash, pNum]{Message: msg, Signature: pgrandpa.AuthoritySignature(s.sig), ID: pgrandpa.AuthorityID(s.id)}
			got, err := scale.Marshal(sm)
			if err != nil || !bytes.Equal(got, e.b) {
				t.Fatalf("primitives SignedMessage stage %d %+v:\n impl %x (err %v)\n spec %x", stage, sm, got, err, e.b)
			}
			var dec pgrandpa.SignedMessage[pHash, pNum]
			if err := scale.Unmarshal(e.b, &dec); err != nil {
				t.Fatalf("decoding signed message %x: %v", e.b, err)
			}
			idx, _, err := dec.Message.IndexValue()
			if err != nil || int(idx) != stage {
				t.Fatalf("decoded signed message %x: stage %d (err %v), want %d", e.b, idx, err, stage)
			}
			tg := dec.Message.Target()
			if !sameH256(tg.Hash, s.vote.hash) || tg.Number != n || [64]byte(dec.Signature) != s.sig || [32]byte(dec.ID) != s.id {
				t.Fatalf("decoded signed message %x = %+v", e.b, dec)
			}
			if re, err := scale.Marshal(dec); err != nil || !bytes.Equal(re, e.b) {
				t.Fatalf("re-encoding signed message: %x (err %v), want %x", re, err, e.b)
			}
			// localised signing payload: message, round, set id
			round, setID := genU64(t, "round"), genU64(t, "setID")
			p := &enc{}
			p.u8(byte(stage))
			s.vote.ref(p)
			p.u64(round).u64(setID)
			if lp := pgrandpa.NewLocalizedPayload(pgrandpa.RoundNumber(round), pgrandpa.SetID(setID), msg); !bytes.Equal(lp, p.b) {
				t.Fatalf("NewLocalizedPayload(round %d, set %d, stage %d): impl %x, spec %x", round, setID, stage, lp, p.b)
			}
			kit.Case(fmt.Sprintf("prim-signed-msg %x r=%d s=%d", e.b, round, setID), n != 0 || round != 0, fmt.Sprintf("prim:signed-message/stage=%d", stage), "prim:localized-payload")
		case 2: // justification: round, commit, vote ancestries (headers; digests are not modelled by the generic header yet -> empty)
			round := genU64(t, "round")
			target := genVote(t, "target")
			pcs := genSignedVotes(t, "pc")
			nAnc := rapid.SampledFrom([]int{0, 1, 2, 3}).Draw(t, "nAncestries")
			e.u64(round)
			target.ref(e)
			refSignedVotes(e, pcs)
			e.compact(uint64(nAnc))
			j := pgrandpa.GrandpaJustification[pHash, pNum]{Round: round,
				Commit: pgrandpa.Commit[pHash, pNum]{TargetHash: pHash(target.hash[:]), TargetNumber: target.number}}
			for _, s := range pcs {
				j.Commit.Precommits = append(j.Commit.Precommits, toPSigned(s))
			}
			var ancs []mHeader
			for i := 0; i < nAnc; i++ {
				a := mHeader{parent: genHash(t, "aParent"), state: genHash(t, "aState"), ext: genHash(t, "aExt"), number: genU32(t, "aNum")}
				ancs = append(ancs, a)
				e.raw(a.ref())
				j.VoteAncestries = append(j.VoteAncestries, generic.NewHeader[pNum, pHash, runtime.BlakeTwo256](
					a.number, pHash(a.ext[:]), pHash(a.state[:]), pHash(a.parent[:]), runtime.Digest{}))
			}
			got, err := scale.Marshal(j)
			if err != nil || !bytes.Equal(got, e.b) {
				t.Fatalf("primitives GrandpaJustification round %d, %d precommits, %d ancestries:\n impl %x (err %v)\n spec %x", round, len(pcs), nAnc, hb(got), err, hb(e.b))
			}
			dec, err := clientgrandpa.DecodeJustification[pHash, pNum, runtime.BlakeTwo256](e.b)
			if err != nil {
				t.Fatalf("DecodeJustification(%x): %v", hb(e.b), err)
			}
			dj := dec.Justification
			if dj.Round != round || !sameH256(dj.Commit.TargetHash, target.hash) || dj.Commit.TargetNumber != target.number {
				t.Fatalf("decoded justification %x: round %d target %v/%d", hb(e.b), dj.Round, dj.Commit.TargetHash, dj.Commit.TargetNumber)
			}
			if err := samePSigned(dj.Commit.Precommits, pcs); err != nil {
				t.Fatalf("decoded justification %x: %v", hb(e.b), err)
			}
			if len(dj.VoteAncestries) != nAnc {
				t.Fatalf("decoded justification: %d ancestries, want %d", len(dj.VoteAncestries), nAnc)
			}
			for i, a := range ancs {
				h := dj.VoteAncestries[i]
				if !sameH256(h.ParentHash(), a.parent) || !sameH256(h.StateRoot(), a.state) || !sameH256(h.ExtrinsicsRoot(), a.ext) || h.Number() != a.number {
					t.Fatalf("decoded ancestry %d = %+v, want %s", i, h, a)
				}
				want := kit.Blake256(a.ref())
				if !sameH256(h.Hash(), want) {
					t.Fatalf("generic header hash of %s: %x, BLAKE2b-256(encoding) = %x", a, h.Hash().Bytes(), want)
				}
			}
			if re, err := scale.Marshal(dj); err != nil || !bytes.Equal(re, e.b) {
				t.Fatalf("re-encoding decoded justification: %x (err %v), want %x", hb(re), err, hb(e.b))
			}
			kit.Case(fmt.Sprintf("prim-justification %x", hb(e.b)), len(pcs) > 0 || nAnc > 0, "prim:justification", fmt.Sprintf("prim-ancestries=%d", nAnc))
		case 3: // scheduled change: authority list (id, weight), delay
			as := genAuths(t, "auth")
			delay := genU32(t, "delay")
			refAuths(e, as)
			e.u32(delay)
			sc := pgrandpa.ScheduledChange[pNum]{Delay: delay}
			for _, a := range as {
				sc.NextAuthorities = append(sc.NextAuthorities, pgrandpa.AuthorityIDWeight{AuthorityID: pgrandpa.AuthorityID(a.key), AuthorityWeight: pgrandpa.AuthorityWeight(a.weight)})
			}
			got, err := scale.Marshal(sc)
			if err != nil || !bytes.Equal(got, e.b) {
				t.Fatalf("primitives ScheduledChange %+v:\n impl %x (err %v)\n spec %x", sc, got, err, e.b)
			}
			var dec pgrandpa.ScheduledChange[pNum]
			if err := scale.Unmarshal(e.b, &dec); err != nil {
				t.Fatalf("decoding scheduled change %x: %v", e.b, err)
			}
			if dec.Delay != delay || len(dec.NextAuthorities) != len(as) {
				t.Fatalf("decoded scheduled change %x = %+v", e.b, dec)
			}
			for i, a := range as {
				if [32]byte(dec.NextAuthorities[i].AuthorityID) != a.key || uint64(dec.NextAuthorities[i].AuthorityWeight) != a.weight {
					t.Fatalf("decoded scheduled change %x: authority %d = %+v", e.b, i, dec.NextAuthorities[i])
				}
			}
			kit.Case(fmt.Sprintf("prim-scheduled-change %x", e.b), len(as) > 0, "prim:scheduled-change")
		case 4: // generic header (empty digest) on its own: encoding and hash
			a := mHeader{parent: genHash(t, "aParent"), state: genHash(t, "aState"), ext: genHash(t, "aExt"), number: genU32(t, "aNum")}
			h := generic.NewHeader[pNum, pHash, runtime.BlakeTwo256](a.number, pHash(a.ext[:]), pHash(a.state[:]), pHash(a.parent[:]), runtime.Digest{})
			ref := a.ref()
			got, err := scale.Marshal(*h)
			if err != nil || !bytes.Equal(got, ref) {
				t.Fatalf("generic header %s:\n impl %x (err %v)\n spec %x", a, got, err, ref)
			}
			if want := kit.Blake256(ref); !sameH256(h.Hash(), want) {
				t.Fatalf("generic header hash of %s: %x, want %x", a, h.Hash().Bytes(), want)
			}
			kit.Case("prim-header "+a.String(), a.number != 0, "prim:generic-header")
		}
	})
}

// TestC14PrimRegressions: the shrunk failure behind fixes/02 (decoding any
// finality-grandpa Message failed in SetValue), as a fixed case.
func TestC14PrimRegressions(t *testing.T) {
	defer kit.Flush()
	for stage := byte(0); stage <= 2; stage++ {
		ref := append([]byte{stage}, make([]byte, 32+4+64+32)...)
		ref[33] = 7 // target number 7
		var dec pgrandpa.SignedMessage[pHash, pNum]
		if err := scale.Unmarshal(ref, &dec); err != nil {
			t.Fatalf("decoding SignedMessage stage %d (%x): %v", stage, ref, err)
		}
		idx, _, err := dec.Message.IndexValue()
		if err != nil || byte(idx) != stage || dec.Message.Target().Number != 7 {
			t.Fatalf("decoded SignedMessage stage %d: index %d, target %+v, err %v", stage, idx, dec.Message.Target(), err)
		}
		re, err := scale.Marshal(dec)
		if err != nil || !bytes.Equal(re, ref) {
			t.Fatalf("re-encoding SignedMessage stage %d: %x (err %v)", stage, re, err)
		}
		kit.Case(fmt.Sprintf("regression signed-message stage %d", stage), true, "regression")
	}
}
