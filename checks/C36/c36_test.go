package state

// C36 - Chain state survives a crash at any write.
//
// A state service is initialised by hand from a small genesis (the steps of
// Service.Initialise without the Wasm runtime) over the recording database of
// c36_rec_test.go. A rapid-generated scenario imports a tree of blocks the way
// dot/core.handleBlock does (StoreTrie, AddBlock, consensus digests,
// ApplyForcedChanges), finalises some of them the way lib/grandpa does
// (SetJustification, SetPrevotes, SetPrecommits, SetFinalisedHash,
// SetLatestRound) and runs what the dot/digest finalisation handler runs
// (FinalizeBABENextEpochData, FinalizeBABENextConfigData,
// ApplyScheduledChanges). Then, for EVERY prefix length of the write log made
// after initialisation, a fresh database holding exactly that prefix is
// restarted through Service.Start and judged against a model of the scenario.

import (
	"bytes"
	"encoding/json"
	"errors"
	"fmt"
	"io"
	"sort"
	"strings"
	"testing"

	"github.com/ChainSafe/gossamer/dot/types"
	"github.com/ChainSafe/gossamer/internal/database"
	"github.com/ChainSafe/gossamer/internal/log"
	kit "github.com/ChainSafe/gossamer/internal/verifkit"
	"github.com/ChainSafe/gossamer/lib/blocktree"
	"github.com/ChainSafe/gossamer/lib/common"
	"github.com/ChainSafe/gossamer/lib/crypto/ed25519"
	"github.com/ChainSafe/gossamer/lib/genesis"
	"github.com/ChainSafe/gossamer/pkg/scale"
	"github.com/ChainSafe/gossamer/pkg/trie"
	inmemory_trie "github.com/ChainSafe/gossamer/pkg/trie/inmemory"
	"pgregory.net/rapid"
)

const c36Rule = "scenario = hand-made genesis + 4-12 imported blocks (forks below the finalised head, state changed by 0-4 puts/deletes per block and written with StoreTrie, optional GRANDPA scheduled/forced change digest, optional BABE NextEpochData digest) + 1-4 finalisations with increasing (set id, round) + the finalisation handler; one evaluation = one crash point = one prefix length i of the post-initialisation write log (ALL i of every scenario are enumerated, nothing is sampled inside a scenario), replayed into a fresh database and (phase 1) restarted with Service.Start and judged, then (phase 2, also at EVERY crash point) the scenario is carried on on the restarted service as a node would (lost blocks imported again, interrupted and later finalisations issued again), the database is restarted a SECOND time and judged again (head = last finalisation of the scenario, whole finalised chain readable); non-trivial = the prefix ends strictly inside an operation (import / finalise / finalisation-handler), i.e. op.start < i < op.end; distinct by (scenario, i)"

func init() {
	logger.Patch(log.SetLevel(log.Critical), log.SetWriter(io.Discard))
}

type c36Telemetry struct{}

func (c36Telemetry) SendMessage(json.Marshaler) {}

// ---------------------------------------------------------------- model

type c36Blk struct {
	parent int
	number uint
	hash   common.Hash
	header *types.Header
	body   types.Body
	state  kit.OrdMap
	puts   []c36Change // state changes relative to the parent
	change int         // 0 none, 1 scheduled, 2 forced
	delay  int
	epoch  bool // carries a NextEpochData digest
}

type c36Op struct {
	kind       string // import | finalise | handler
	start, end int    // the op issued log[start:end]
	block      int
	round      uint64
	setID      uint64
	setIDAfter uint64 // current GRANDPA set id of the live service when the op had completed
	descr      string
}

type c36Scenario struct {
	db        *c36RecDB
	svc       *Service
	cfg       *types.BabeConfiguration
	blocks    []c36Blk
	head      int
	ops       []c36Op
	initEnd   int
	lastRound uint64
	lastSetID uint64
	// authority list (index of the announcing block, -1 genesis) of every set id, learned when a complete
	// operation of the live service switched to it
	authOf map[uint64]int
	labels map[string]bool
}

func (s *c36Scenario) isDescOrEq(anc, d int) bool {
	for d >= 0 {
		if d == anc {
			return true
		}
		d = s.blocks[d].parent
	}
	return false
}

var c36Keys [][32]byte

func c36InitKeys() {
	if c36Keys != nil {
		return
	}
	for i := 0; i < 4; i++ {
		seed := make([]byte, 32)
		seed[0] = byte(i + 1)
		seed[1] = 0x36
		kp, err := ed25519.NewKeypairFromSeed(seed)
		if err != nil {
			panic(err)
		}
		var k [32]byte
		copy(k[:], kp.Public().Encode())
		c36Keys = append(c36Keys, k)
	}
}

// authority list announced by block a (a = -1: genesis): 1 or 2 voters, the first voter id identifies a
func c36AuthsRaw(a int) []types.GrandpaAuthoritiesRaw {
	c36InitKeys()
	out := []types.GrandpaAuthoritiesRaw{{Key: c36Keys[(a+4)%4], ID: uint64(a + 1000)}}
	if (a+4)%2 == 1 {
		out = append(out, types.GrandpaAuthoritiesRaw{Key: c36Keys[(a+5)%4], ID: uint64(a + 5000)})
	}
	return out
}

func c36Voters(a int) []types.GrandpaVoter {
	v, err := types.NewGrandpaVotersFromAuthoritiesRaw(c36AuthsRaw(a))
	if err != nil {
		panic(err)
	}
	return v
}

func c36SameVoters(got []types.GrandpaVoter, a int) bool {
	want := c36AuthsRaw(a)
	if len(got) != len(want) {
		return false
	}
	for i := range want {
		if got[i].ID != want[i].ID || !bytes.Equal(got[i].Key.Encode(), want[i].Key[:]) {
			return false
		}
	}
	return true
}

func c36BabeCfg() *types.BabeConfiguration {
	return &types.BabeConfiguration{
		SlotDuration:       1000,
		EpochLength:        20,
		C1:                 1,
		C2:                 4,
		GenesisAuthorities: []types.AuthorityRaw{{Key: [32]byte{0x36}, Weight: 1}},
		Randomness:         [32]byte{0x36, 0x01},
		SecondarySlots:     1,
	}
}

type c36Fataler interface {
	Fatalf(format string, args ...any)
}

// ---------------------------------------------------------------- scenario execution

// c36Init performs Service.Initialise by hand (everything except creating the
// genesis Wasm runtime, which only serves to read the BABE configuration).
func c36Init(genesisState kit.OrdMap) (*c36Scenario, error) {
	rec, err := c36NewRecDB()
	if err != nil {
		return nil, err
	}
	s := &c36Scenario{db: rec, cfg: c36BabeCfg(), authOf: map[uint64]int{0: -1}, labels: map[string]bool{}}
	gtr := inmemory_trie.NewEmptyTrie()
	for _, k := range genesisState.Keys() {
		if err := gtr.Put([]byte(k), genesisState[k]); err != nil {
			return nil, err
		}
	}
	root, err := gtr.Hash()
	if err != nil {
		return nil, err
	}
	header := types.NewHeader(common.Hash{}, root, trie.EmptyHash, 0, types.NewDigest())

	svc := &Service{db: rec, isMemDB: true, Telemetry: c36Telemetry{}, genesisBABEConfig: s.cfg,
		closeCh: make(chan interface{})}
	if err = gtr.WriteDirty(database.NewTable(rec, storagePrefix)); err != nil {
		return nil, fmt.Errorf("write genesis trie: %w", err)
	}
	svc.Base = NewBaseState(rec)
	if err = svc.storeInitialValues(&genesis.Data{Name: "c36", ID: "c36", ChainType: "Local"}, gtr); err != nil {
		return nil, err
	}
	tries := NewTries()
	tries.SetTrie(gtr)
	if svc.Block, err = NewBlockStateFromGenesis(rec, tries, header, svc.Telemetry); err != nil {
		return nil, fmt.Errorf("NewBlockStateFromGenesis: %w", err)
	}
	if svc.Storage, err = NewStorageState(rec, svc.Block, tries); err != nil {
		return nil, err
	}
	if svc.Epoch, err = NewEpochStateFromGenesis(rec, svc.Block, s.cfg); err != nil {
		return nil, err
	}
	if svc.Grandpa, err = NewGrandpaStateFromGenesis(rec, svc.Block, c36Voters(-1), svc.Telemetry); err != nil {
		return nil, err
	}
	svc.Slot = NewSlotState(rec)
	s.svc = svc
	s.blocks = []c36Blk{{parent: -1, number: 0, hash: header.Hash(), header: header,
		body: *types.NewBody([]types.Extrinsic{}), state: genesisState.Clone()}}
	s.initEnd = rec.logLen()
	return s, nil
}

func (s *c36Scenario) close() { _ = s.db.Database.Close() }

func (s *c36Scenario) beginOp(kind string, block int) *c36Op {
	s.db.mu.Lock()
	s.db.curOp = len(s.ops)
	start := len(s.db.log)
	s.db.mu.Unlock()
	s.ops = append(s.ops, c36Op{kind: kind, start: start, block: block})
	return &s.ops[len(s.ops)-1]
}

func (s *c36Scenario) endOp(t c36Fataler, op *c36Op) {
	op.end = s.db.logLen()
	cur, err := s.svc.Grandpa.GetCurrentSetID()
	if err != nil {
		t.Fatalf("live service: GetCurrentSetID: %v", err)
	}
	op.setIDAfter = cur
	if _, known := s.authOf[cur]; !known {
		// the live service switched to a new set during this operation: learn which announced list it took
		auths, err := s.svc.Grandpa.GetAuthorities(cur)
		if err != nil || len(auths) == 0 {
			t.Fatalf("live service: set id %d has no authorities after a complete operation: %v", cur, err)
		}
		a := int(auths[0].ID) - 1000
		if a < 0 || a >= len(s.blocks) || s.blocks[a].change == 0 || !c36SameVoters(auths, a) {
			t.Fatalf("live service: authorities of set %d are not a list announced in this scenario: %v", cur, auths)
		}
		s.authOf[cur] = a
		if s.blocks[a].change == 1 {
			s.labels["scenario:scheduled-change-enacted"] = true
		} else {
			s.labels["scenario:forced-change-enacted"] = true
		}
	}
}

// c36ErrClass names the class of an error that the node logs (or returns from the import) and carries on with.
func c36ErrClass(err error) string {
	msg := err.Error()
	for _, c := range []string{"not found", "unfinalized ancestor", "already has a forced change", "duplicated hashes",
		"pending scheduled changes", "epoch"} {
		if strings.Contains(msg, c) {
			return strings.ReplaceAll(c, " ", "-")
		}
	}
	return "other"
}

type c36Change struct {
	del bool
	k   string
	v   []byte
}

// c36HandleDigests does what dot/core.handleBlock does after AddBlock: dot/digest
// BlockImportHandler.HandleDigests (every consensus digest of the header is decoded again and handed to
// GrandpaState / EpochState), then GrandpaState.ApplyForcedChanges unless the digests failed.
func c36HandleDigests(t c36Fataler, svc *Service, header *types.Header) (digestErr, forcedErr error) {
	for _, item := range header.Digest {
		v, err := item.Value()
		if err != nil {
			t.Fatalf("digest item: %v", err)
		}
		cd, ok := v.(types.ConsensusDigest)
		if !ok {
			continue
		}
		switch cd.ConsensusEngineID {
		case types.GrandpaEngineID:
			data := types.NewGrandpaConsensusDigest()
			if err := scale.Unmarshal(cd.Data, &data); err != nil {
				t.Fatalf("decode grandpa digest: %v", err)
			}
			digestErr = svc.Grandpa.HandleGRANDPADigest(header, data)
		case types.BabeEngineID:
			data := types.NewBabeConsensusDigest()
			if err := scale.Unmarshal(cd.Data, &data); err != nil {
				t.Fatalf("decode babe digest: %v", err)
			}
			digestErr = svc.Epoch.HandleBABEDigest(header, data)
		}
		if digestErr != nil {
			return digestErr, nil
		}
	}
	return nil, svc.Grandpa.ApplyForcedChanges(header)
}

// importBlock mirrors dot/core.Service.handleBlock.
func (s *c36Scenario) importBlock(t c36Fataler, parent int, changes []c36Change, change, delay int, epoch bool, nExt int) {
	p := s.blocks[parent]
	idx := len(s.blocks)
	op := s.beginOp("import", idx)

	ts, err := s.svc.Storage.TrieState(&p.header.StateRoot)
	if err != nil {
		t.Fatalf("live service: TrieState(parent root): %v", err)
	}
	st := p.state.Clone()
	for _, c := range changes {
		if c.del {
			err = ts.Delete([]byte(c.k))
			delete(st, c.k)
		} else {
			err = ts.Put([]byte(c.k), c.v)
			st[c.k] = c.v
		}
		if err != nil {
			t.Fatalf("live service: trie state update: %v", err)
		}
	}
	root, err := ts.Trie().Hash()
	if err != nil {
		t.Fatalf("live service: root: %v", err)
	}
	if spec := kit.SpecRoot(st, false); !bytes.Equal(spec[:], root[:]) {
		t.Fatalf("state root of imported block differs from the spec root (a C01 matter, the scenario is unusable): %s vs %x, state %s",
			root, spec, st.Describe())
	}

	number := p.number + 1
	digest := types.NewDigest()
	pre, err := types.NewBabeSecondaryPlainPreDigest(0, uint64(100+10*number+uint(idx%4))).ToPreRuntimeDigest()
	if err != nil {
		t.Fatalf("pre digest: %v", err)
	}
	if err = digest.Add(*pre); err != nil {
		t.Fatalf("digest: %v", err)
	}
	if change != 0 {
		d := types.NewGrandpaConsensusDigest()
		if change == 1 {
			err = d.SetValue(types.GrandpaScheduledChange{Auths: c36AuthsRaw(idx), Delay: uint32(delay)})
		} else {
			err = d.SetValue(types.GrandpaForcedChange{BestFinalizedBlock: uint32(s.blocks[s.head].number),
				Auths: c36AuthsRaw(idx), Delay: uint32(delay)})
		}
		if err != nil {
			t.Fatalf("grandpa digest: %v", err)
		}
		enc, err := scale.Marshal(d)
		if err != nil {
			t.Fatalf("grandpa digest: %v", err)
		}
		if err = digest.Add(types.ConsensusDigest{ConsensusEngineID: types.GrandpaEngineID, Data: enc}); err != nil {
			t.Fatalf("digest: %v", err)
		}
	}
	if epoch {
		d := types.NewBabeConsensusDigest()
		err = d.SetValue(types.NextEpochData{
			Authorities: []types.AuthorityRaw{{Key: [32]byte{0x36, byte(idx)}, Weight: uint64(idx + 1)}},
			Randomness:  [32]byte{byte(idx), 0x36},
		})
		if err != nil {
			t.Fatalf("babe digest: %v", err)
		}
		enc, err := scale.Marshal(d)
		if err != nil {
			t.Fatalf("babe digest: %v", err)
		}
		if err = digest.Add(types.ConsensusDigest{ConsensusEngineID: types.BabeEngineID, Data: enc}); err != nil {
			t.Fatalf("digest: %v", err)
		}
	}
	var xroot common.Hash
	xroot[0], xroot[1], xroot[2] = byte(idx), byte(idx>>8), 0x36
	header := types.NewHeader(p.hash, root, xroot, number, digest)
	exts := []types.Extrinsic{}
	for i := 0; i < nExt; i++ {
		exts = append(exts, types.Extrinsic{byte(idx), byte(i), 0x36, 0x00})
	}
	block := &types.Block{Header: *header, Body: *types.NewBody(exts)}

	if err = s.svc.Storage.StoreTrie(ts, header); err != nil {
		t.Fatalf("live service: StoreTrie: %v", err)
	}
	if err = s.svc.Block.AddBlock(block); err != nil {
		t.Fatalf("live service: AddBlock(child of b%d): %v", parent, err)
	}
	s.blocks = append(s.blocks, c36Blk{parent: parent, number: number, hash: header.Hash(), header: header,
		body: block.Body, state: st, puts: changes, change: change, delay: delay, epoch: epoch})

	digestErr, forcedErr := c36HandleDigests(t, s.svc, header)
	if digestErr != nil {
		// handleBlock returns the error; the block stays in the block tree. Not a crash matter.
		s.labels["scenario:import-digest-error:"+c36ErrClass(digestErr)] = true
	} else if forcedErr != nil {
		s.labels["scenario:apply-forced-error:"+c36ErrClass(forcedErr)] = true
	}
	op.descr = fmt.Sprintf("import b%d(#%d<-b%d", idx, number, parent)
	for _, c := range changes {
		if c.del {
			op.descr += fmt.Sprintf(" D%x", c.k)
		} else {
			op.descr += fmt.Sprintf(" P%x=%d", c.k, len(c.v))
		}
	}
	switch change {
	case 1:
		op.descr += fmt.Sprintf(" sched+%d", delay)
	case 2:
		op.descr += fmt.Sprintf(" forced+%d", delay)
	}
	if epoch {
		op.descr += " epoch"
	}
	op.descr += fmt.Sprintf(" x%d)", nExt)
	s.endOp(t, op)
}

// finalise mirrors lib/grandpa (attemptToFinalize) followed by the dot/digest
// finalisation handler, as two operations.
func (s *c36Scenario) finalise(t c36Fataler, target int, roundStep uint64) {
	b := s.blocks[target]
	setID, err := s.svc.Grandpa.GetCurrentSetID()
	if err != nil {
		t.Fatalf("live service: GetCurrentSetID: %v", err)
	}
	round := roundStep
	if setID == s.lastSetID {
		round = s.lastRound + roundStep
	}
	op := s.beginOp("finalise", target)
	op.round, op.setID = round, setID
	op.descr = fmt.Sprintf("finalise b%d(round %d set %d)", target, round, setID)
	if err = s.svc.Block.SetJustification(b.hash, []byte(fmt.Sprintf("justification-%d-%d", round, setID))); err != nil {
		t.Fatalf("live service: SetJustification: %v", err)
	}
	if err = s.svc.Grandpa.SetPrevotes(round, setID, []types.GrandpaSignedVote{}); err != nil {
		t.Fatalf("live service: SetPrevotes: %v", err)
	}
	if err = s.svc.Grandpa.SetPrecommits(round, setID, []types.GrandpaSignedVote{}); err != nil {
		t.Fatalf("live service: SetPrecommits: %v", err)
	}
	if err = s.svc.Block.SetFinalisedHash(b.hash, round, setID); err != nil {
		t.Fatalf("live service: SetFinalisedHash(b%d, %d, %d): %v", target, round, setID, err)
	}
	if err = s.svc.Grandpa.SetLatestRound(round); err != nil {
		t.Fatalf("live service: SetLatestRound: %v", err)
	}
	s.head = target
	s.lastRound, s.lastSetID = round, setID
	s.endOp(t, op)

	op = s.beginOp("handler", target)
	op.descr = fmt.Sprintf("on-finalised b%d", target)
	// errors are logged and ignored by the handler
	if err = s.svc.Epoch.FinalizeBABENextEpochData(b.header); err == nil {
		s.labels["scenario:epoch-data-finalised-call-ok"] = true
	}
	_ = s.svc.Epoch.FinalizeBABENextConfigData(b.header)
	if err = s.svc.Grandpa.ApplyScheduledChanges(b.header); err != nil {
		s.labels["scenario:apply-scheduled-error:"+c36ErrClass(err)] = true
	}
	s.endOp(t, op)
}

// ---------------------------------------------------------------- restart + oracle

// c36Expect is what the model says about the crash point i.
type c36Expect struct {
	lastFinal *c36Op // last finalise op completely inside the prefix (nil: genesis only)
	inFlight  *c36Op // op with start < i < end (nil at a boundary)
	minSetID  uint64 // current set id when the last complete op had ended
	maxSetID  uint64 // current set id when the op in flight (or the last complete op) had ended
}

func (s *c36Scenario) expectAt(i int) c36Expect {
	var e c36Expect
	for k := range s.ops {
		op := &s.ops[k]
		if op.end <= i {
			if op.kind == "finalise" {
				e.lastFinal = op
			}
			e.minSetID = op.setIDAfter
			e.maxSetID = op.setIDAfter
		} else if op.start < i {
			e.inFlight = op
			e.maxSetID = op.setIDAfter
		}
	}
	return e
}

func c36After(setA, roundA, setB, roundB uint64) bool { // (setA, roundA) >= (setB, roundB)
	if setA != setB {
		return setA > setB
	}
	return roundA >= roundB
}

// c36HeadOpt is one finalised head the model accepts after a restart.
type c36HeadOpt struct {
	block        int
	round, setID uint64
	anyRound     bool // only the block is prescribed (finalisations re-issued after a restart choose their own round)
	why          string
}

// c36Want is what a restart must find.
type c36Want struct {
	heads            []c36HeadOpt
	minSet, minRound uint64 // finalised (set id, round) must not be older than this
	minCur, maxCur   uint64 // bounds of the current GRANDPA set id
	exactAuths       bool   // the authority list of a set id must be the one the scenario enacted it with
}

// c36Seen is what a restart found.
type c36Seen struct {
	head         int
	round, setID uint64
	cur          uint64
}

// wantAfterCrash: the restart on the database reduced to the first i write units.
func (s *c36Scenario) wantAfterCrash(i int) c36Want {
	e := s.expectAt(i)
	w := c36Want{minCur: e.minSetID, maxCur: e.maxSetID, exactAuths: true}
	h := c36HeadOpt{block: 0, why: "genesis (no finalisation was complete before the crash)"}
	if e.lastFinal != nil {
		h = c36HeadOpt{block: e.lastFinal.block, round: e.lastFinal.round, setID: e.lastFinal.setID,
			why: "the last finalisation completed before the crash"}
	}
	w.minSet, w.minRound = h.setID, h.round
	w.heads = []c36HeadOpt{h}
	if e.inFlight != nil && e.inFlight.kind == "finalise" {
		w.heads = append(w.heads, c36HeadOpt{block: e.inFlight.block, round: e.inFlight.round, setID: e.inFlight.setID,
			why: "the interrupted finalisation"})
	}
	return w
}

// c36Start restarts a node state service from db the way dot/node does
// (NewService + SetupBase + Start; here the database is handed over directly).
func (s *c36Scenario) start(db database.Database) (svc *Service, msg string) {
	defer func() {
		if r := recover(); r != nil {
			svc, msg = nil, fmt.Sprintf("Service.Start panicked: %v", r)
		}
	}()
	svc = &Service{db: db, isMemDB: true, Telemetry: c36Telemetry{}, genesisBABEConfig: s.cfg,
		closeCh: make(chan interface{})}
	svc.Base = NewBaseState(db)
	if err := svc.Start(); err != nil {
		return nil, fmt.Sprintf("Service.Start failed: %v", err)
	}
	if svc.Block == nil || svc.Storage == nil || svc.Grandpa == nil || svc.Epoch == nil {
		return nil, "Service.Start left a nil sub-state"
	}
	return svc, ""
}

func (s *c36Scenario) sameBody(got *types.Body, blk *c36Blk) bool {
	if len(*got) != len(blk.body) {
		return false
	}
	for k := range blk.body {
		if !bytes.Equal((*got)[k], blk.body[k]) {
			return false
		}
	}
	return true
}

// judge inspects a freshly restarted service. It returns what it saw and "" or the violation.
func (s *c36Scenario) judge(svc *Service, w c36Want) (seen c36Seen, msg string) {
	defer func() {
		if r := recover(); r != nil {
			msg = fmt.Sprintf("reading the restarted state panicked: %v", r)
		}
	}()
	// --- finalised head
	round, setID, err := svc.Block.GetHighestRoundAndSetID()
	if err != nil {
		return seen, fmt.Sprintf("GetHighestRoundAndSetID: %v", err)
	}
	seen.round, seen.setID = round, setID
	headHash, err := svc.Block.GetFinalisedHash(round, setID)
	if err != nil {
		return seen, fmt.Sprintf("GetFinalisedHash(%d,%d): %v", round, setID, err)
	}
	if !c36After(setID, round, w.minSet, w.minRound) {
		return seen, fmt.Sprintf("finalised (round %d, set %d) is older than (round %d, set %d) reached before",
			round, setID, w.minRound, w.minSet)
	}
	hb := -1
	for k := range s.blocks {
		if s.blocks[k].hash == headHash {
			hb = k
		}
	}
	if hb < 0 {
		return seen, fmt.Sprintf("finalised head %s is not a block of the scenario", headHash)
	}
	seen.head = hb
	okHead := false
	var allowed []string
	for _, h := range w.heads {
		if h.block == hb && (h.anyRound || (h.round == round && h.setID == setID)) {
			okHead = true
		}
		if h.anyRound {
			allowed = append(allowed, fmt.Sprintf("b%d = %s", h.block, h.why))
		} else {
			allowed = append(allowed, fmt.Sprintf("b%d at (round %d, set %d) = %s", h.block, h.round, h.setID, h.why))
		}
	}
	if !okHead {
		return seen, fmt.Sprintf("finalised head is b%d at (round %d, set %d); the model allows only: %s",
			hb, round, setID, strings.Join(allowed, "; "))
	}
	blk := &s.blocks[hb]
	hdr, err := svc.Block.GetHeader(headHash)
	if err != nil {
		return seen, fmt.Sprintf("header of the finalised head b%d unreadable: %v", hb, err)
	}
	if hdr.Hash() != headHash || hdr.StateRoot != blk.header.StateRoot || hdr.Number != blk.number {
		return seen, fmt.Sprintf("header of the finalised head b%d differs from the imported one", hb)
	}
	hdr2, err := svc.Block.GetHighestFinalisedHeader()
	if err != nil || hdr2.Hash() != headHash {
		return seen, fmt.Sprintf("GetHighestFinalisedHeader: %v", err)
	}
	body, err := svc.Block.GetBlockBody(headHash)
	if err != nil {
		return seen, fmt.Sprintf("body of the finalised head b%d unreadable: %v", hb, err)
	}
	if !s.sameBody(body, blk) {
		return seen, fmt.Sprintf("body of the finalised head b%d differs from the imported one", hb)
	}
	if _, err = svc.Block.GetBlockByHash(headHash); err != nil {
		return seen, fmt.Sprintf("GetBlockByHash(finalised head b%d): %v", hb, err)
	}
	if best := svc.Block.BestBlockHash(); best != headHash {
		return seen, fmt.Sprintf("best block after restart is %s, not the finalised head", best)
	}
	// --- the finalised chain below the head: every block was written (header, body, number->hash) before the
	// finalisation that covers it moved the finalised pointers
	for k := blk.parent; k >= 0; k = s.blocks[k].parent {
		anc := &s.blocks[k]
		if _, err := svc.Block.GetHeader(anc.hash); err != nil {
			return seen, fmt.Sprintf("header of b%d (#%d, on the finalised chain below the head b%d) unreadable: %v", k, anc.number, hb, err)
		}
		ab, err := svc.Block.GetBlockBody(anc.hash)
		if err != nil {
			return seen, fmt.Sprintf("body of b%d (#%d, on the finalised chain below the head b%d) unreadable: %v", k, anc.number, hb, err)
		}
		if !s.sameBody(ab, anc) {
			return seen, fmt.Sprintf("body of b%d (on the finalised chain) differs from the imported one", k)
		}
	}
	for k := hb; k >= 0; k = s.blocks[k].parent {
		anc := &s.blocks[k]
		raw, err := svc.Block.db.Get(headerHashKey(uint64(anc.number)))
		if err != nil {
			return seen, fmt.Sprintf("number->hash entry of #%d (b%d, finalised chain of the head b%d) unreadable: %v", anc.number, k, hb, err)
		}
		if !bytes.Equal(raw, anc.hash[:]) {
			return seen, fmt.Sprintf("number->hash entry of #%d is %x, the finalised chain has b%d there", anc.number, raw, k)
		}
		if k != hb {
			if got, err := svc.Block.GetHashByNumber(anc.number); err != nil || got != anc.hash {
				return seen, fmt.Sprintf("GetHashByNumber(%d) = %s, %v; the finalised chain has b%d there", anc.number, got, err, k)
			}
		}
	}
	// --- state of the finalised head
	tr, err := svc.Storage.LoadFromDB(hdr.StateRoot)
	if err != nil {
		return seen, fmt.Sprintf("state of the finalised head b%d not loadable: %v", hb, err)
	}
	gotRoot, err := tr.Hash()
	if err != nil || gotRoot != hdr.StateRoot {
		return seen, fmt.Sprintf("state of the finalised head b%d has root %s, header says %s (%v)", hb, gotRoot, hdr.StateRoot, err)
	}
	entries := tr.Entries()
	if len(entries) != len(blk.state) {
		return seen, fmt.Sprintf("state of the finalised head b%d has %d entries, model %d", hb, len(entries), len(blk.state))
	}
	for k, v := range blk.state {
		if got, ok := entries[k]; !ok || !bytes.Equal(got, v) {
			return seen, fmt.Sprintf("state of the finalised head b%d: key %x = %x, model %x", hb, k, got, v)
		}
		got, err := svc.Storage.GetStorage(&hdr.StateRoot, []byte(k))
		if err != nil || !bytes.Equal(got, v) {
			return seen, fmt.Sprintf("GetStorage(root of b%d, %x) = %x, %v; model %x", hb, k, got, err, v)
		}
	}
	// what lib/grandpa.NewService reads at start
	if _, err = svc.Block.GetFinalisedHeader(0, 0); err != nil {
		return seen, fmt.Sprintf("GetFinalisedHeader(0,0): %v", err)
	}
	if _, err = svc.Grandpa.GetLatestRound(); err != nil {
		return seen, fmt.Sprintf("GetLatestRound: %v", err)
	}
	if _, err = svc.Epoch.GetCurrentEpoch(); err != nil {
		return seen, fmt.Sprintf("GetCurrentEpoch: %v", err)
	}
	// --- GRANDPA authority set
	cur, err := svc.Grandpa.GetCurrentSetID()
	if err != nil {
		return seen, fmt.Sprintf("GetCurrentSetID: %v", err)
	}
	seen.cur = cur
	if cur < w.minCur {
		return seen, fmt.Sprintf("current set id %d is older than %d reached before", cur, w.minCur)
	}
	if cur > w.maxCur {
		return seen, fmt.Sprintf("current set id %d was never reached by the scenario up to this point (max %d)", cur, w.maxCur)
	}
	auths, err := svc.Grandpa.GetAuthorities(cur)
	if err != nil {
		return seen, fmt.Sprintf("current set id is %d but GetAuthorities(%d) fails: %v", cur, cur, err)
	}
	if w.exactAuths {
		if a, ok := s.authOf[cur]; ok && !c36SameVoters(auths, a) {
			return seen, fmt.Sprintf("authorities of the current set %d are %v, the set was enacted with the list of b%d", cur, auths, a)
		}
	} else {
		// sets enacted again after a restart: the list must still be one announced in the scenario (or genesis)
		a := -2
		if len(auths) > 0 {
			a = int(auths[0].ID) - 1000
		}
		if a < -1 || a >= len(s.blocks) || (a >= 0 && s.blocks[a].change == 0) || !c36SameVoters(auths, a) {
			return seen, fmt.Sprintf("authorities of the current set %d are %v: not a list announced in the scenario", cur, auths)
		}
	}
	if _, err = svc.Grandpa.GetSetIDChange(cur); err != nil {
		return seen, fmt.Sprintf("current set id is %d but GetSetIDChange(%d) fails: %v", cur, cur, err)
	}
	return seen, ""
}

// c36Cont counts what the continuation after a restart had to redo.
type c36Cont struct {
	reimported, refinalised, handlers int
}

// continueOn carries the scenario on, on the service restarted after the crash at i, the way a node does:
// everything that lived in memory only is gone (unfinalised blocks, pending authority changes), so
//   - import: every block of the scenario that is not on the finalised chain of the restarted node and whose
//     parent the restarted node knows (its finalised head, or a block imported again that still descends from
//     the head) is imported again, in scenario order, exactly as before (StoreTrie of the parent state plus the
//     block's changes, AddBlock, digests, ApplyForcedChanges). Blocks of forks the restarted node has abandoned
//     are skipped (sync could not import them either). blocktree.ErrBlockExists and the digest / forced-change
//     errors the node logs are tolerated.
//   - finalise: finalisations that were complete before the crash are not repeated; the interrupted one and the
//     later ones are issued again unless the block already is the finalised head, with the set id the restarted
//     GrandpaState reports and the next round after the stored highest (round, set id), as lib/grandpa would.
//   - handler: run again after every finalisation issued again, and for the interrupted handler if its block is
//     the head. Errors ignored, as the handler does.
//
// Any other error is reported: a node that cannot import or finalise after a restart did not survive the crash.
func (s *c36Scenario) continueOn(t c36Fataler, svc *Service, i int, seen c36Seen) (cnt c36Cont, msg string) {
	defer func() {
		if r := recover(); r != nil {
			msg = fmt.Sprintf("continuing on the restarted service panicked: %v", r)
		}
	}()
	cur := seen.head
	// "a finalised set id no older than before": a finalisation that names an OLDER authority set
	// than the stored highest (round, set id) - e.g. a late justification - must still be refused by
	// the restarted node, and must leave the stored record as it is
	if hr0, hs0, err := svc.Block.GetHighestRoundAndSetID(); err == nil && hs0 >= 1 {
		head, err := svc.Block.GetHighestFinalisedHash()
		if err != nil {
			return cnt, fmt.Sprintf("after the restart: GetHighestFinalisedHash: %v", err)
		}
		if err := svc.Block.SetFinalisedHash(head, hr0+5, hs0-1); err == nil {
			return cnt, fmt.Sprintf("after the restart: SetFinalisedHash(head, round %d, set %d) accepted although the stored highest is (round %d, set %d)", hr0+5, hs0-1, hr0, hs0)
		}
		if hr1, hs1, err := svc.Block.GetHighestRoundAndSetID(); err != nil || hr1 != hr0 || hs1 != hs0 {
			return cnt, fmt.Sprintf("after the restart: a refused finalisation of an older set changed the stored highest (round, set id) from (%d,%d) to (%d,%d), %v", hr0, hs0, hr1, hs1, err)
		}
	}
	imported := map[int]bool{}
	for k := range s.ops {
		op := &s.ops[k]
		b := op.block
		blk := &s.blocks[b]
		switch op.kind {
		case "import":
			if s.isDescOrEq(b, cur) {
				continue // on the finalised chain already
			}
			p := blk.parent
			if !s.isDescOrEq(cur, p) || !(p == cur || imported[p]) {
				continue // fork abandoned by the restarted node
			}
			ts, err := svc.Storage.TrieState(&s.blocks[p].header.StateRoot)
			if err != nil {
				return cnt, fmt.Sprintf("after the restart the state of b%d (parent of b%d, to be imported again) is not loadable: %v", p, b, err)
			}
			for _, c := range blk.puts {
				if c.del {
					err = ts.Delete([]byte(c.k))
				} else {
					err = ts.Put([]byte(c.k), c.v)
				}
				if err != nil {
					return cnt, fmt.Sprintf("after the restart: trie state update for b%d: %v", b, err)
				}
			}
			if root, err := ts.Trie().Hash(); err != nil || root != blk.header.StateRoot {
				return cnt, fmt.Sprintf("after the restart the state of b%d, rebuilt on the stored state of b%d, has root %s, not %s (%v)",
					b, p, root, blk.header.StateRoot, err)
			}
			if err = svc.Storage.StoreTrie(ts, blk.header); err != nil {
				return cnt, fmt.Sprintf("after the restart: StoreTrie(b%d): %v", b, err)
			}
			err = svc.Block.AddBlock(&types.Block{Header: *blk.header, Body: blk.body})
			if err != nil && !errors.Is(err, blocktree.ErrBlockExists) {
				return cnt, fmt.Sprintf("after the restart: AddBlock(b%d): %v", b, err)
			}
			_, _ = c36HandleDigests(t, svc, blk.header)
			imported[b] = true
			cnt.reimported++
		case "finalise":
			if op.end <= i || s.isDescOrEq(b, cur) {
				continue // complete before the crash, or its pointers were already written
			}
			if !imported[b] {
				t.Fatalf("harness: continuation cannot finalise b%d again: it was not imported again (head b%d)", b, cur)
			}
			setID, err := svc.Grandpa.GetCurrentSetID()
			if err != nil {
				return cnt, fmt.Sprintf("after the restart: GetCurrentSetID: %v", err)
			}
			hr, hs, err := svc.Block.GetHighestRoundAndSetID()
			if err != nil {
				return cnt, fmt.Sprintf("after the restart: GetHighestRoundAndSetID: %v", err)
			}
			round := uint64(1)
			if setID == hs {
				round = hr + 1
			}
			if err = svc.Block.SetJustification(blk.hash, []byte(fmt.Sprintf("justification-again-%d-%d", round, setID))); err != nil {
				return cnt, fmt.Sprintf("after the restart: SetJustification(b%d): %v", b, err)
			}
			if err = svc.Grandpa.SetPrevotes(round, setID, []types.GrandpaSignedVote{}); err != nil {
				return cnt, fmt.Sprintf("after the restart: SetPrevotes: %v", err)
			}
			if err = svc.Grandpa.SetPrecommits(round, setID, []types.GrandpaSignedVote{}); err != nil {
				return cnt, fmt.Sprintf("after the restart: SetPrecommits: %v", err)
			}
			if err = svc.Block.SetFinalisedHash(blk.hash, round, setID); err != nil {
				return cnt, fmt.Sprintf("after the restart: SetFinalisedHash(b%d, round %d, set %d): %v", b, round, setID, err)
			}
			if err = svc.Grandpa.SetLatestRound(round); err != nil {
				return cnt, fmt.Sprintf("after the restart: SetLatestRound: %v", err)
			}
			cur = b
			cnt.refinalised++
		case "handler":
			if op.end <= i || b != cur {
				continue
			}
			_ = svc.Epoch.FinalizeBABENextEpochData(blk.header)
			_ = svc.Epoch.FinalizeBABENextConfigData(blk.header)
			_ = svc.Grandpa.ApplyScheduledChanges(blk.header)
			cnt.handlers++
		}
	}
	if cur != s.head {
		t.Fatalf("harness: continuation ended with head b%d, the scenario ends with b%d", cur, s.head)
	}
	return cnt, ""
}

func (s *c36Scenario) describe() string {
	parts := make([]string, 0, len(s.ops))
	for _, op := range s.ops {
		parts = append(parts, fmt.Sprintf("%s[%d]", op.descr, op.end-op.start))
	}
	return strings.Join(parts, " ")
}

// continueAt says for which crash points the scenario is carried on after the restart and restarted a second
// time. With stride 1 that is every crash point (nothing is sampled); a larger stride keeps every crash point
// strictly inside an operation and every stride-th boundary crash point.
const c36BoundaryStride = 1

func (s *c36Scenario) continueAt(i int, e c36Expect) bool {
	return e.inFlight != nil || (i-s.initEnd)%c36BoundaryStride == 0
}

// enumerate restarts from EVERY prefix of the post-initialisation write log.
func (s *c36Scenario) enumerate(t c36Fataler, record bool) (total, inside int) {
	descr := s.describe()
	n := len(s.db.log)
	for i := s.initEnd; i <= n; i++ {
		e := s.expectAt(i)
		where := "at an operation boundary"
		if e.inFlight != nil {
			where = fmt.Sprintf("inside %q after %d of its %d units", e.inFlight.descr, i-e.inFlight.start, e.inFlight.end-e.inFlight.start)
		}
		last := "(none)"
		if i > 0 {
			last = s.db.log[i-1].String()
		}
		fail := func(phase, msg string) {
			t.Fatalf("crash after write unit %d of %d (%s), %s: %s%s\nscenario: %s", i, n, last, where, phase, msg, descr)
		}
		db, err := c36Replay(s.db.log[:i])
		if err != nil {
			t.Fatalf("harness: replay: %v", err)
		}
		labels := []string{"prefix"}
		svc, msg := s.start(db)
		var seen c36Seen
		if msg == "" {
			seen, msg = s.judge(svc, s.wantAfterCrash(i))
		}
		if msg != "" {
			_ = db.Close()
			fail("", msg)
		}
		if s.continueAt(i, e) {
			// second phase: carry on as a node would, restart again, judge again
			cnt, msg := s.continueOn(t, svc, i, seen)
			if msg != "" {
				_ = db.Close()
				fail("", msg)
			}
			svc2, msg := s.start(db)
			if msg == "" {
				want := c36Want{heads: []c36HeadOpt{{block: s.head, anyRound: true, why: "the last finalisation of the scenario"}},
					minSet: seen.setID, minRound: seen.round, minCur: seen.cur, maxCur: ^uint64(0)}
				_, msg = s.judge(svc2, want)
			}
			if msg != "" {
				_ = db.Close()
				fail(fmt.Sprintf("restart ok (head b%d); scenario continued on the restarted node (%d blocks imported again, %d finalisations issued again); SECOND restart: ",
					seen.head, cnt.reimported, cnt.refinalised), msg)
			}
			labels = append(labels, "prefix-continued+second-restart")
			if cnt.refinalised > 0 {
				labels = append(labels, "continued:finalisation-issued-again")
			}
			if cnt.reimported > 0 {
				labels = append(labels, "continued:blocks-imported-again")
			}
			if e.inFlight != nil && e.inFlight.kind == "finalise" && seen.head != e.inFlight.block {
				labels = append(labels, "continued:interrupted-finalisation-repeated")
			}
		}
		_ = db.Close()
		total++
		if e.inFlight != nil {
			inside++
			labels = append(labels, "prefix-inside-op", "prefix-inside-"+e.inFlight.kind)
			if s.db.log[i-1].batch {
				labels = append(labels, "prefix-ends-with-batch")
			}
		}
		if record {
			kit.Case(fmt.Sprintf("crash after unit %d/%d %s, %s; scenario: %s", i, n, last, where, descr), e.inFlight != nil, labels...)
		}
	}
	return total, inside
}

// ---------------------------------------------------------------- generator

var c36KeyAlphabet = []byte{0x00, 0x01, 0x10, 0x11, 0xf0, 0xff}
var c36ValueLens = []int{1, 2, 8, 31, 32, 33, 40, 64}

func c36GenKey(t *rapid.T) string {
	n := rapid.IntRange(1, 3).Draw(t, "klen")
	return string(rapid.SliceOfN(rapid.SampledFrom(c36KeyAlphabet), n, n).Draw(t, "key"))
}

func c36GenValue(t *rapid.T) []byte {
	n := rapid.SampledFrom(c36ValueLens).Draw(t, "vlen")
	seed := rapid.Byte().Draw(t, "vseed")
	v := make([]byte, n)
	for i := range v {
		v[i] = seed + byte(i*5)
	}
	return v
}

func c36GenScenario(t *rapid.T) *c36Scenario {
	gen := kit.OrdMap{":code": []byte("not a runtime"), ":c36": bytes.Repeat([]byte{0x36}, 40)}
	for i, n := 0, rapid.IntRange(1, 5).Draw(t, "genesisKeys"); i < n; i++ {
		gen[c36GenKey(t)] = c36GenValue(t)
	}
	s, err := c36Init(gen)
	if err != nil {
		t.Fatalf("harness: initialisation: %v", err)
	}
	nBlocks := rapid.IntRange(4, 12).Draw(t, "blocks")
	nFinal := rapid.IntRange(1, 4).Draw(t, "finalisations")
	finals := 0
	strictDesc := func() []int {
		var out []int
		for k := range s.blocks {
			if k != s.head && s.isDescOrEq(s.head, k) {
				out = append(out, k)
			}
		}
		return out
	}
	doFinal := func() {
		cands := strictDesc()
		var target int
		if rapid.IntRange(0, 2).Draw(t, "finalDeep") > 0 {
			// the deepest candidate (the latest of them): finalises a chain of several blocks
			target = cands[0]
			for _, c := range cands {
				if s.blocks[c].number >= s.blocks[target].number {
					target = c
				}
			}
		} else {
			target = cands[rapid.IntRange(0, len(cands)-1).Draw(t, "finalTarget")]
		}
		s.finalise(t, target, uint64(rapid.IntRange(1, 3).Draw(t, "roundStep")))
		finals++
	}
	for len(s.blocks)-1 < nBlocks {
		if finals < nFinal && len(strictDesc()) > 0 && rapid.IntRange(0, 3).Draw(t, "finaliseNow") == 0 {
			doFinal()
			continue
		}
		// parent: a live block (the finalised head or a descendant), as sync only imports on top of known live blocks
		var live []int
		for k := range s.blocks {
			if s.isDescOrEq(s.head, k) {
				live = append(live, k)
			}
		}
		parent := live[len(live)-1]
		if rapid.IntRange(0, 2).Draw(t, "fork") == 0 {
			parent = live[rapid.IntRange(0, len(live)-1).Draw(t, "parent")]
		}
		st := s.blocks[parent].state.Clone()
		var changes []c36Change
		for i, n := 0, rapid.IntRange(0, 4).Draw(t, "changes"); i < n; i++ {
			keys := st.Keys()
			if len(keys) > 1 && rapid.IntRange(0, 3).Draw(t, "del") == 0 {
				k := keys[rapid.IntRange(0, len(keys)-1).Draw(t, "delKey")]
				delete(st, k)
				changes = append(changes, c36Change{del: true, k: k})
				continue
			}
			var k string
			if rapid.Bool().Draw(t, "overwrite") {
				k = keys[rapid.IntRange(0, len(keys)-1).Draw(t, "owKey")]
			} else {
				k = c36GenKey(t)
			}
			v := c36GenValue(t)
			st[k] = v
			changes = append(changes, c36Change{k: k, v: v})
		}
		change := rapid.SampledFrom([]int{0, 0, 0, 1, 1, 2}).Draw(t, "authorityChange")
		delay := 0
		if change != 0 {
			delay = rapid.IntRange(0, 2).Draw(t, "delay")
		}
		epoch := rapid.IntRange(0, 3).Draw(t, "epochDigest") == 0
		s.importBlock(t, parent, changes, change, delay, epoch, rapid.IntRange(0, 2).Draw(t, "extrinsics"))
	}
	for finals < nFinal && len(strictDesc()) > 0 {
		doFinal()
	}
	if finals == 0 {
		t.Fatalf("harness: scenario without a finalisation")
	}
	return s
}

// TestC36CrashAtEveryWrite: every crash point of every generated scenario.
func TestC36CrashAtEveryWrite(t *testing.T) {
	defer kit.Flush()
	kit.Note("rule", c36Rule)
	rapid.Check(t, func(t *rapid.T) {
		s := c36GenScenario(t)
		defer s.close()
		total, inside := s.enumerate(t, true)
		labels := []string{"scenario"}
		for l := range s.labels {
			labels = append(labels, l)
		}
		sort.Strings(labels)
		forks := false
		seen := map[int]bool{}
		for _, b := range s.blocks[1:] {
			if seen[b.parent] {
				forks = true
			}
			seen[b.parent] = true
		}
		if forks {
			labels = append(labels, "scenario:with-fork")
		}
		nf := 0
		for _, op := range s.ops {
			if op.kind == "finalise" {
				nf++
			}
		}
		labels = append(labels, fmt.Sprintf("scenario:finalisations=%d", nf))
		switch {
		case total < 60:
			labels = append(labels, "scenario:prefixes<60")
		case total < 120:
			labels = append(labels, "scenario:prefixes 60-119")
		default:
			labels = append(labels, "scenario:prefixes>=120")
		}
		if inside*2 < total {
			labels = append(labels, "scenario:less-than-half-inside-an-op")
		}
		kit.Label(labels...)
	})
}
