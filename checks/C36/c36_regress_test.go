package state

// C36 - deterministic scenarios (kind: plain): the shrunk failing inputs found
// by TestC36CrashAtEveryWrite plus fixed scenarios that keep the interesting
// write sequences covered at every run. Every crash point of each scenario is
// enumerated, exactly as in the generated test.

import (
	"bytes"
	"testing"

	kit "github.com/ChainSafe/gossamer/internal/verifkit"
)

func c36FixedGenesis() kit.OrdMap {
	return kit.OrdMap{
		":code":        []byte("not a runtime"),
		":c36":         bytes.Repeat([]byte{0x36}, 40),
		"\x00\x01":     bytes.Repeat([]byte{0x01}, 33),
		"\x00\x10":     {0x02},
		"\x11":         bytes.Repeat([]byte{0x03}, 64),
		"\xf0\xff":     bytes.Repeat([]byte{0x04}, 31),
		"\xf0\xff\x00": bytes.Repeat([]byte{0x05}, 32),
	}
}

func c36Put(k string, n int, seed byte) c36Change {
	return c36Change{k: k, v: bytes.Repeat([]byte{seed}, n)}
}

func c36RunFixed(t *testing.T, name string, build func(s *c36Scenario), wantLabels ...string) {
	s, err := c36Init(c36FixedGenesis())
	if err != nil {
		t.Fatalf("%s: harness: initialisation: %v", name, err)
	}
	defer s.close()
	build(s)
	for _, l := range wantLabels {
		if !s.labels[l] {
			t.Fatalf("%s: the scenario no longer exercises %q (labels %v): %s", name, l, s.labels, s.describe())
		}
	}
	total, inside := s.enumerate(t, true)
	if inside == 0 {
		t.Fatalf("%s: no crash point inside an operation", name)
	}
	t.Logf("%s: %d crash points enumerated, %d strictly inside an operation: %s", name, total, inside, s.describe())
}

func TestC36Regressions(t *testing.T) {
	defer kit.Flush()
	kit.Note("rule", c36Rule)

	// Found by TestC36CrashAtEveryWrite on the pinned tree (shrunk): b1 announces a scheduled change with delay 0,
	// b1 is finalised, the handler enacts the change. A crash right after put("grandpa"+"setID") left the current
	// set id 1 without authorities ("current set id is 1 but GetAuthorities(1) fails: pebble: not found").
	c36RunFixed(t, "scheduled-change-enacted", func(s *c36Scenario) {
		s.importBlock(t, 0, []c36Change{c36Put("\x00\x01", 40, 0x11)}, 1, 0, true, 0)
		s.finalise(t, 1, 1)
		s.importBlock(t, 1, nil, 0, 0, false, 1)
		s.finalise(t, 2, 2)
	}, "scenario:scheduled-change-enacted")

	// The same write order in ApplyForcedChanges: b1 announces a forced change with delay 0, which is enacted while
	// b1 is imported.
	c36RunFixed(t, "forced-change-enacted", func(s *c36Scenario) {
		s.importBlock(t, 0, []c36Change{c36Put("\x10", 8, 0x12), {del: true, k: "\x00\x10"}}, 2, 0, false, 2)
		s.importBlock(t, 1, []c36Change{c36Put("\x10\x11", 33, 0x13)}, 0, 0, false, 1)
		s.finalise(t, 2, 1)
	}, "scenario:forced-change-enacted")

	// forced change with a delay, enacted by the import of a descendant; scheduled change on the other fork
	c36RunFixed(t, "forced-change-delayed", func(s *c36Scenario) {
		s.importBlock(t, 0, []c36Change{c36Put("\x01", 2, 0x14)}, 2, 2, false, 0)  // b1 #1 forced+2
		s.importBlock(t, 0, []c36Change{c36Put("\x01", 31, 0x15)}, 1, 1, true, 1)  // b2 #1 sched+1 (fork)
		s.importBlock(t, 1, []c36Change{c36Put("\xff", 64, 0x16)}, 0, 0, false, 1) // b3 #2 <- b1
		s.importBlock(t, 3, []c36Change{{del: true, k: "\x11"}}, 0, 0, true, 2)    // b4 #3 <- b3: forced change enacted
		s.finalise(t, 3, 2)
		s.finalise(t, 4, 1)
	}, "scenario:forced-change-enacted")

	// Seeded change missed by the one-restart harness: handleFinalisedBlock skipped every block of the newly
	// finalised subchain whose header key was already in the database. A crash right after the header write of
	// the finalisation of b1 (4th of its units), restart (head b0), b1..b2 imported again, b1 finalised again
	// (nothing written for b1, pointers moved), second restart: body / number->hash of b1 missing. This is the
	// first scenario above with its continuation; it is kept here as a two-block chain finalised in one step so
	// that the skipped block is also an inner block of the subchain.
	c36RunFixed(t, "refinalise-after-crash-between-header-and-body", func(s *c36Scenario) {
		s.importBlock(t, 0, []c36Change{c36Put("\x00\x01", 40, 0x31)}, 0, 0, false, 2)
		s.importBlock(t, 1, []c36Change{c36Put("\x10", 33, 0x32)}, 0, 0, true, 1)
		s.finalise(t, 2, 1)
		s.importBlock(t, 2, []c36Change{c36Put("\x10", 2, 0x33)}, 1, 0, false, 1)
		s.finalise(t, 3, 2)
	}, "scenario:scheduled-change-enacted")

	// finalisation of a chain of three blocks at once with an abandoned fork, then two single-block finalisations
	c36RunFixed(t, "multi-block-finalisation", func(s *c36Scenario) {
		s.importBlock(t, 0, []c36Change{c36Put("\x00\x01", 64, 0x21), c36Put("\x00\x01\x10", 33, 0x22)}, 0, 0, true, 1) // b1
		s.importBlock(t, 1, []c36Change{{del: true, k: "\xf0\xff"}, c36Put("\x11\x11", 32, 0x23)}, 0, 0, false, 2)      // b2
		s.importBlock(t, 0, []c36Change{c36Put("\x11", 1, 0x24)}, 0, 0, false, 0)                                       // b3 fork at #1
		s.importBlock(t, 2, nil, 0, 0, true, 0)                                                                         // b4 same state as b2
		s.importBlock(t, 3, []c36Change{c36Put("\x11", 40, 0x25)}, 0, 0, false, 1)                                      // b5 on the fork
		s.finalise(t, 4, 3)
		s.importBlock(t, 4, []c36Change{c36Put("\xf0", 33, 0x26)}, 1, 1, false, 1) // b6 sched+1
		s.importBlock(t, 6, []c36Change{c36Put("\xf0", 34, 0x27)}, 0, 0, true, 1)  // b7
		s.finalise(t, 6, 1)
		s.finalise(t, 7, 2)
	}, "scenario:scheduled-change-enacted")
}
