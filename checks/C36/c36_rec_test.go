package state

// C36 - recording database: a database.Database wrapper around an in-memory
// Pebble that logs every durable unit in order. A single Put/Del is one unit,
// a batch is ONE unit, made durable (and applied atomically) at Flush. This is
// exactly the property's assumption: the store keeps write order and applies
// batches atomically. Every table of dot/state (database.NewTable) forwards
// Put/Del/NewBatch to the wrapped database.Database with the table prefix
// already prepended, so all writes of BlockState, StorageState, GrandpaState,
// EpochState, BaseState and SlotState go through here.

import (
	"fmt"
	"sync"

	"github.com/ChainSafe/gossamer/internal/database"
)

type c36KV struct {
	del bool
	k   []byte
	v   []byte
}

// c36Unit is one durable unit of the write log.
type c36Unit struct {
	batch bool
	ops   []c36KV
	op    int // index of the scenario operation that issued it (-1: initialisation)
}

func (u c36Unit) String() string {
	s := ""
	if u.batch {
		s = fmt.Sprintf("batch[%d]", len(u.ops))
	}
	for i, o := range u.ops {
		if i == 3 {
			s += " .."
			break
		}
		if o.del {
			s += fmt.Sprintf(" del(%q)", c36ShortKey(o.k))
		} else {
			s += fmt.Sprintf(" put(%q,%d bytes)", c36ShortKey(o.k), len(o.v))
		}
	}
	return s
}

func c36ShortKey(k []byte) string {
	// table prefixes and key prefixes are ASCII, the tail is usually a hash
	i := 0
	for i < len(k) && k[i] >= 0x20 && k[i] < 0x7f {
		i++
	}
	if i == len(k) {
		return string(k)
	}
	tail := k[i:]
	if len(tail) > 6 {
		return fmt.Sprintf("%s|%x..", k[:i], tail[:6])
	}
	return fmt.Sprintf("%s|%x", k[:i], tail)
}

type c36RecDB struct {
	database.Database // in-memory Pebble; reads, iterators, Flush, Close, Path
	mu                sync.Mutex
	log               []c36Unit
	curOp             int
}

func c36NewRecDB() (*c36RecDB, error) {
	inner, err := database.NewPebble("c36", true)
	if err != nil {
		return nil, err
	}
	return &c36RecDB{Database: inner, curOp: -1}, nil
}

func c36Copy(b []byte) []byte { return append([]byte{}, b...) }

func (r *c36RecDB) Put(key, value []byte) error {
	if err := r.Database.Put(key, value); err != nil {
		return err
	}
	r.mu.Lock()
	r.log = append(r.log, c36Unit{ops: []c36KV{{k: c36Copy(key), v: c36Copy(value)}}, op: r.curOp})
	r.mu.Unlock()
	return nil
}

func (r *c36RecDB) Del(key []byte) error {
	if err := r.Database.Del(key); err != nil {
		return err
	}
	r.mu.Lock()
	r.log = append(r.log, c36Unit{ops: []c36KV{{del: true, k: c36Copy(key)}}, op: r.curOp})
	r.mu.Unlock()
	return nil
}

func (r *c36RecDB) NewBatch() database.Batch {
	return &c36RecBatch{db: r}
}

func (r *c36RecDB) logLen() int {
	r.mu.Lock()
	defer r.mu.Unlock()
	return len(r.log)
}

// c36RecBatch buffers its operations; nothing is durable before Flush.
type c36RecBatch struct {
	db  *c36RecDB
	ops []c36KV
}

func (b *c36RecBatch) Put(key, value []byte) error {
	b.ops = append(b.ops, c36KV{k: c36Copy(key), v: c36Copy(value)})
	return nil
}

func (b *c36RecBatch) Del(key []byte) error {
	b.ops = append(b.ops, c36KV{del: true, k: c36Copy(key)})
	return nil
}

func (b *c36RecBatch) Flush() error {
	if len(b.ops) == 0 {
		return nil // nothing becomes durable
	}
	inner := b.db.Database.NewBatch()
	for _, o := range b.ops {
		var err error
		if o.del {
			err = inner.Del(o.k)
		} else {
			err = inner.Put(o.k, o.v)
		}
		if err != nil {
			return err
		}
	}
	if err := inner.Flush(); err != nil {
		return err
	}
	_ = inner.Close()
	b.db.mu.Lock()
	b.db.log = append(b.db.log, c36Unit{batch: true, ops: b.ops, op: b.db.curOp})
	b.db.mu.Unlock()
	b.ops = nil
	return nil
}

func (b *c36RecBatch) ValueSize() int { return len(b.ops) }
func (b *c36RecBatch) Reset()         { b.ops = nil }
func (b *c36RecBatch) Close() error   { return nil }

// c36Replay builds a fresh in-memory Pebble database holding exactly the
// given units, applied in log order.
func c36Replay(units []c36Unit) (database.Database, error) {
	db, err := database.NewPebble("c36-replay", true)
	if err != nil {
		return nil, err
	}
	if len(units) == 0 {
		return db, nil
	}
	// one Pebble batch for the whole prefix: operations of a batch are applied
	// in order, so the result equals applying the units one after the other.
	b := db.NewBatch()
	for _, u := range units {
		for _, o := range u.ops {
			if o.del {
				err = b.Del(o.k)
			} else {
				err = b.Put(o.k, o.v)
			}
			if err != nil {
				return nil, err
			}
		}
	}
	if err := b.Flush(); err != nil {
		return nil, err
	}
	_ = b.Close()
	return db, nil
}
