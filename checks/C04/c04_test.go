package inmemory

import (
	"bytes"
	"fmt"
	"sort"
	"strings"
	"testing"

	"github.com/ChainSafe/gossamer/internal/database"
	kit "github.com/ChainSafe/gossamer/internal/verifkit"
	"github.com/ChainSafe/gossamer/lib/common"
	"github.com/ChainSafe/gossamer/pkg/trie"
	"github.com/ChainSafe/gossamer/pkg/trie/node"
	"pgregory.net/rapid"
)

// ---------------------------------------------------------------------------
// A tiny map-backed database with the semantics of the Pebble table the node
// uses for the "storage" table: a missing key is an error (pebble.ErrNotFound),
// batches are applied atomically on Flush.
// ---------------------------------------------------------------------------

type c04DB struct {
	m      map[string][]byte
	writes int
}

func newC04DB() *c04DB { return &c04DB{m: map[string][]byte{}} }

func (d *c04DB) Get(k []byte) ([]byte, error) {
	v, ok := d.m[string(k)]
	if !ok {
		return nil, database.ErrNotFound
	}
	return append([]byte{}, v...), nil
}
func (d *c04DB) Put(k, v []byte) error {
	d.m[string(k)] = append([]byte{}, v...)
	d.writes++
	return nil
}
func (d *c04DB) NewBatch() database.Batch { return &c04Batch{db: d} }

type c04Batch struct {
	db  *c04DB
	ops [][2][]byte
}

func (b *c04Batch) Put(k, v []byte) error {
	b.ops = append(b.ops, [2][]byte{append([]byte{}, k...), append([]byte{}, v...)})
	return nil
}
func (b *c04Batch) Del(k []byte) error { return fmt.Errorf("c04Batch: unexpected Del(%x)", k) }
func (b *c04Batch) Flush() error {
	for _, o := range b.ops {
		_ = b.db.Put(o[0], o[1])
	}
	b.ops = nil
	return nil
}
func (b *c04Batch) Close() error   { return nil }
func (b *c04Batch) ValueSize() int { return len(b.ops) }
func (b *c04Batch) Reset()         { b.ops = nil }

// ---------------------------------------------------------------------------
// Model of one state: main map + child tries by name. The expected main trie
// content is the main map plus, for every non-empty child, the entry
// ":child_storage:default:<name>" -> spec root of the child map.
// ---------------------------------------------------------------------------

type c04State struct {
	main     kit.OrdMap
	children map[string]kit.OrdMap
}

func (s c04State) clone() c04State {
	c := c04State{main: s.main.Clone(), children: map[string]kit.OrdMap{}}
	for n, m := range s.children {
		c.children[n] = m.Clone()
	}
	return c
}

func childKey(name string) string { return string(ChildStorageKeyPrefix) + name }

func (s c04State) fullMain(v1 bool) kit.OrdMap {
	m := s.main.Clone()
	for n, cm := range s.children {
		r := kit.SpecRoot(cm, v1)
		m[childKey(n)] = r[:]
	}
	return m
}

func (s c04State) childNames() []string {
	ns := make([]string, 0, len(s.children))
	for n := range s.children {
		ns = append(ns, n)
	}
	sort.Strings(ns)
	return ns
}

type c04Block struct {
	root  common.Hash
	state c04State
}

func sameMap(got map[string][]byte, want kit.OrdMap) error {
	if len(got) != len(want) {
		return fmt.Errorf("has %d keys, model %d: got %s, model %s", len(got), len(want), kit.OrdMap(got).Describe(), want.Describe())
	}
	for k, v := range want {
		g, ok := got[k]
		if !ok || !bytes.Equal(g, v) {
			return fmt.Errorf("key %x: got %x (present %v), model %x", k, g, ok, v)
		}
	}
	return nil
}

// absentProbes returns keys that are NOT in m but are close to its keys:
// truncations, extensions, last-nibble / inner-nibble changes.
func absentProbes(m kit.OrdMap, extra [][]byte) [][]byte {
	seen := map[string]bool{}
	var out [][]byte
	add := func(k []byte) {
		if _, in := m[string(k)]; in || seen[string(k)] {
			return
		}
		seen[string(k)] = true
		out = append(out, append([]byte{}, k...))
	}
	for _, ks := range m.Keys() {
		k := []byte(ks)
		if len(k) > 80 {
			// long keys: a few variants only
			add(k[:len(k)-1])
			add(append(append([]byte{}, k...), 0x00))
			continue
		}
		for l := 0; l < len(k); l++ {
			add(k[:l])
		}
		add(append(append([]byte{}, k...), 0x00))
		add(append(append([]byte{}, k...), 0x10))
		for i := range k {
			for _, x := range []byte{0x01, 0x10, 0x0f, 0xf0} {
				c := append([]byte{}, k...)
				c[i] ^= x
				add(c)
			}
		}
	}
	for _, k := range extra {
		add(k)
	}
	if len(out) > 60 {
		out = out[:60]
	}
	return out
}

// verifyRoot checks everything the property states for one persisted state.
func verifyRoot(db *c04DB, b c04Block, v1 bool, extra [][]byte, labels map[string]bool) error {
	full := b.state.fullMain(v1)
	want := kit.SpecRoot(full, v1)
	if b.root != common.Hash(want) {
		return fmt.Errorf("in-memory root at persist time %s differs from spec root %x of model %s", b.root, want, full.Describe())
	}

	// 1. reload by root hash into a fresh trie
	fresh := NewTrie(nil, db)
	if err := fresh.Load(db, b.root); err != nil {
		return fmt.Errorf("Load(%s): %v; model %s", b.root, err, full.Describe())
	}
	h, err := fresh.Hash()
	if err != nil || h != b.root {
		return fmt.Errorf("reloaded Hash() %s (err %v), persisted root %s", h, err, b.root)
	}
	if err := sameMap(fresh.Entries(), full); err != nil {
		return fmt.Errorf("reloaded Entries(): %v", err)
	}
	// the reloaded trie must also hash to the root when its Merkle cache is not trusted
	if fresh.root != nil {
		dc := NewTrie(c04DeepDirtyCopy(fresh.root), nil)
		if dh, err := dc.Hash(); err != nil || dh != b.root {
			return fmt.Errorf("reloaded trie re-hashed from its nodes gives %s (err %v), persisted root %s; model %s", dh, err, b.root, full.Describe())
		}
	}
	for _, n := range b.state.childNames() {
		cm := b.state.children[n]
		ct, err := fresh.GetChild([]byte(n))
		if err != nil || ct == nil {
			return fmt.Errorf("reloaded GetChild(%q): trie %v err %v; child model %s", n, ct, err, cm.Describe())
		}
		if err := sameMap(ct.Entries(), cm); err != nil {
			return fmt.Errorf("reloaded child %q Entries(): %v", n, err)
		}
		cr := kit.SpecRoot(cm, v1)
		if ch, err := ct.Hash(); err != nil || ch != common.Hash(cr) {
			return fmt.Errorf("reloaded child %q root %s (err %v), spec %x", n, ch, err, cr)
		}
		for k, v := range cm {
			got, err := fresh.GetFromChild([]byte(n), []byte(k))
			if err != nil || got == nil || !bytes.Equal(got, v) {
				return fmt.Errorf("reloaded GetFromChild(%q, %x) = %x, err %v; model %x", n, k, got, err, v)
			}
		}
	}
	if got := len(fresh.GetKeysWithPrefix(ChildStorageKeyPrefix)); got != len(b.state.children) {
		return fmt.Errorf("reloaded trie has %d child keys, model %d", got, len(b.state.children))
	}

	// 2. direct reads from the database by root hash
	read := func(root common.Hash, m kit.OrdMap, what string) error {
		for _, ks := range m.Keys() {
			want := m[ks]
			got, err := GetFromDB(db, root, []byte(ks))
			if err != nil {
				return fmt.Errorf("GetFromDB(%s, present key %x) of %s: error %v; model value %x; model %s", root, ks, what, err, want, m.Describe())
			}
			if got == nil || !bytes.Equal(got, want) {
				return fmt.Errorf("GetFromDB(%s, present key %x) of %s = %x (nil %v); model value %x (%d bytes); model %s",
					root, ks, what, got, got == nil, want, len(want), m.Describe())
			}
		}
		for _, k := range absentProbes(m, extra) {
			got, err := GetFromDB(db, root, k)
			if err != nil {
				return fmt.Errorf("GetFromDB(%s, absent key %x) of %s: error %v; model %s", root, k, what, err, m.Describe())
			}
			if got != nil {
				return fmt.Errorf("GetFromDB(%s, absent key %x) of %s = %x, want absent (nil); model %s", root, k, what, got, m.Describe())
			}
			labels["absent-key-read"] = true
		}
		return nil
	}
	if err := read(b.root, full, "main trie"); err != nil {
		return err
	}
	for _, n := range b.state.childNames() {
		cr := kit.SpecRoot(b.state.children[n], v1)
		if err := read(common.Hash(cr), b.state.children[n], fmt.Sprintf("child trie %q", n)); err != nil {
			return err
		}
	}

	// coverage labels from the shape of the reloaded trie
	var walk func(n *node.Node, isRoot bool)
	walk = func(n *node.Node, isRoot bool) {
		if n == nil {
			return
		}
		if n.MustBeHashed {
			labels["hashed-v1-value"] = true
			if n.Kind() == node.Branch {
				labels["hashed-v1-value-on-branch"] = true
			}
		}
		if !isRoot && len(n.MerkleValue) < 32 {
			if n.Kind() == node.Branch {
				labels["inlined-branch-child"] = true
			} else {
				labels["inlined-leaf-child"] = true
			}
		}
		for _, c := range n.Children {
			walk(c, false)
		}
	}
	walk(fresh.root, true)
	for _, ct := range fresh.childTries {
		walk(ct.root, true)
	}
	return nil
}

func c04DeepDirtyCopy(n *node.Node) *node.Node {
	c := n.Copy(node.DefaultCopySettings)
	c.Dirty = true
	c.MerkleValue = nil
	for i, ch := range c.Children {
		if ch != nil {
			c.Children[i] = c04DeepDirtyCopy(ch)
		}
	}
	return c
}

var c04ChildNames = []string{"a", "b", "ab", "\x00"}

// c04AliasFinding: InMemoryTrie.childTries is keyed by the child ROOT HASH, so
// two child tries of one state with identical content share one map entry (and
// one trie object); the next write to either of them re-keys the entry and the
// other child key points to nothing.
const c04AliasFinding = "C04-child-tries-alias"

// c04WouldAlias reports whether giving child `name` the content next would make
// two child tries of the state identical (non-empty) in content.
func c04WouldAlias(s c04State, name string, next kit.OrdMap) bool {
	if len(next) == 0 {
		return false
	}
	for n, m := range s.children {
		if n == name || len(m) != len(next) {
			continue
		}
		same := true
		for k, v := range next {
			if ov, ok := m[k]; !ok || !bytes.Equal(ov, v) {
				same = false
				break
			}
		}
		if same {
			return true
		}
	}
	return false
}

func c04Short(v []byte) string {
	if len(v) > 3 {
		return fmt.Sprintf("%x..%d", v[:2], len(v))
	}
	return fmt.Sprintf("%x", v)
}

// runChain: a chain (with forks) of block states, each a Snapshot of an earlier
// one, mutated and persisted with WriteDirty into ONE database.
func runChain(t *rapid.T) (descr string, nontrivial bool, labels map[string]bool) {
	labels = map[string]bool{}
	var d strings.Builder
	v1 := rapid.Bool().Draw(t, "v1")
	db := newC04DB()
	fmt.Fprintf(&d, "v1=%v", v1)

	type live struct {
		tr    *InMemoryTrie
		state c04State
	}
	var blocks []c04Block
	var tries []live
	var pool [][]byte
	drawKey := func() []byte {
		if len(pool) > 0 && rapid.IntRange(0, 2).Draw(t, "reuse") > 0 {
			return pool[rapid.IntRange(0, len(pool)-1).Draw(t, "ki")]
		}
		k := kit.GenKey().Draw(t, "k")
		pool = append(pool, k)
		return k
	}
	// small values with a small shared prefix make inlined branches
	drawValue := func() []byte {
		if rapid.IntRange(0, 2).Draw(t, "tiny") == 0 {
			return rapid.SliceOfN(rapid.Byte(), 0, 3).Draw(t, "tv")
		}
		return kit.GenValue().Draw(t, "v")
	}

	nBlocks := rapid.IntRange(1, 5).Draw(t, "blocks")
	statesWithContent := 0
	for bi := 0; bi < nBlocks; bi++ {
		var cur live
		if bi == 0 {
			tr := NewTrie(nil, db)
			if v1 {
				tr.SetVersion(trie.V1)
			}
			cur = live{tr: tr, state: c04State{main: kit.OrdMap{}, children: map[string]kit.OrdMap{}}}
			fmt.Fprintf(&d, " | B0")
		} else {
			pi := bi - 1
			if rapid.IntRange(0, 3).Draw(t, "fork") == 0 {
				pi = rapid.IntRange(0, bi-1).Draw(t, "parent")
				if pi != bi-1 {
					labels["fork-from-older-state"] = true
				}
			}
			cur = live{tr: tries[pi].tr.Snapshot(), state: tries[pi].state.clone()}
			fmt.Fprintf(&d, " | B%d<-%d", bi, pi)
		}
		nOps := rapid.IntRange(0, 10).Draw(t, "nops")
		if bi == 0 {
			nOps += 2
		}
		changed := false
		for oi := 0; oi < nOps; oi++ {
			c := rapid.IntRange(0, 11).Draw(t, "op")
			switch {
			case c <= 5: // main put
				k, v := drawKey(), drawValue()
				fmt.Fprintf(&d, " P%x=%s", k, c04Short(v))
				if err := cur.tr.Put(k, v); err != nil {
					t.Fatalf("Put: %v", err)
				}
				cur.state.main[string(k)] = v
				changed = true
			case c <= 7: // main delete
				k := drawKey()
				fmt.Fprintf(&d, " D%x", k)
				if err := cur.tr.Delete(k); err != nil {
					t.Fatalf("Delete: %v", err)
				}
				if _, ok := cur.state.main[string(k)]; ok {
					changed = true
				}
				delete(cur.state.main, string(k))
			case c <= 9: // child put
				name := rapid.SampledFrom(c04ChildNames).Draw(t, "child")
				k, v := drawKey(), drawValue()
				if others := cur.state.childNames(); len(others) > 0 && rapid.IntRange(0, 3).Draw(t, "copyEntry") == 0 {
					// copy an entry of another child trie: makes child tries with
					// (partly or wholly) identical content
					o := cur.state.children[others[rapid.IntRange(0, len(others)-1).Draw(t, "from")]]
					oks := o.Keys()
					ok := oks[rapid.IntRange(0, len(oks)-1).Draw(t, "fromk")]
					k, v = []byte(ok), append([]byte{}, o[ok]...)
				}
				next := kit.OrdMap{}
				if cur.state.children[name] != nil {
					next = cur.state.children[name].Clone()
				}
				next[string(k)] = v
				if c04WouldAlias(cur.state, name, next) {
					if kit.KnownOpen(c04AliasFinding) {
						// steer around exactly the recorded trigger: two child tries of
						// one state with identical content. Salt the value with the name.
						kit.Excluded(c04AliasFinding)
						v = append([]byte(name+":"), v...)
						next[string(k)] = v
					} else {
						labels["two-child-tries-identical-content"] = true
					}
				}
				fmt.Fprintf(&d, " CP[%x]%x=%s", name, k, c04Short(v))
				if err := cur.tr.PutIntoChild([]byte(name), k, v); err != nil {
					t.Fatalf("PutIntoChild: %v", err)
				}
				cur.state.children[name] = next
				changed = true
				labels["child-trie"] = true
			case c == 10: // child delete of one key
				names := cur.state.childNames()
				if len(names) == 0 {
					continue
				}
				name := names[rapid.IntRange(0, len(names)-1).Draw(t, "cn")]
				ks := cur.state.children[name].Keys()
				k := []byte(ks[rapid.IntRange(0, len(ks)-1).Draw(t, "ck")])
				if rapid.IntRange(0, 3).Draw(t, "absentck") == 0 {
					k = drawKey()
				}
				nextD := cur.state.children[name].Clone()
				delete(nextD, string(k))
				if c04WouldAlias(cur.state, name, nextD) {
					if kit.KnownOpen(c04AliasFinding) {
						kit.Excluded(c04AliasFinding)
						continue
					}
					labels["two-child-tries-identical-content"] = true
				}
				fmt.Fprintf(&d, " CD[%x]%x", name, k)
				if err := cur.tr.ClearFromChild([]byte(name), k); err != nil {
					t.Fatalf("ClearFromChild: %v", err)
				}
				delete(cur.state.children[name], string(k))
				if len(cur.state.children[name]) == 0 {
					delete(cur.state.children, name)
					labels["child-trie-emptied"] = true
				}
				changed = true
			default: // drop a whole child trie
				names := cur.state.childNames()
				if len(names) == 0 {
					continue
				}
				name := names[rapid.IntRange(0, len(names)-1).Draw(t, "cn")]
				fmt.Fprintf(&d, " CX[%x]", name)
				if err := cur.tr.DeleteChild([]byte(name)); err != nil {
					t.Fatalf("DeleteChild: %v", err)
				}
				delete(cur.state.children, name)
				changed = true
				labels["child-trie-deleted"] = true
			}
		}
		root, err := cur.tr.Hash()
		if err != nil {
			t.Fatalf("Hash: %v", err)
		}
		w0 := db.writes
		if err := cur.tr.WriteDirty(db); err != nil {
			t.Fatalf("WriteDirty: %v", err)
		}
		if bi > 0 && db.writes > w0 {
			labels["incremental-write"] = true
		}
		blk := c04Block{root: root, state: cur.state.clone()}
		blocks = append(blocks, blk)
		tries = append(tries, cur)
		if changed && len(cur.state.main)+len(cur.state.children) > 0 {
			statesWithContent++
		}
		extra := [][]byte{kit.GenKey().Draw(t, "absent1"), kit.GenKey().Draw(t, "absent2")}
		if err := verifyRoot(db, blk, v1, extra, labels); err != nil {
			t.Fatalf("state %d: %v\nhistory: %s", bi, err, d.String())
		}
		// the in-memory state that was persisted: child tries readable and equal to the model
		for _, n := range cur.state.childNames() {
			ct, err := cur.tr.GetChild([]byte(n))
			if err != nil || ct == nil {
				t.Fatalf("state %d in memory: GetChild(%q) = %v, err %v; child model %s\nhistory: %s", bi, n, ct, err, cur.state.children[n].Describe(), d.String())
			}
			if err := sameMap(ct.Entries(), cur.state.children[n]); err != nil {
				t.Fatalf("state %d in memory: child %q: %v\nhistory: %s", bi, n, err, d.String())
			}
		}
		// the in-memory trie that was persisted still agrees too
		if err := sameMap(cur.tr.Entries(), cur.state.fullMain(v1)); err != nil {
			t.Fatalf("state %d in memory after WriteDirty: %v\nhistory: %s", bi, err, d.String())
		}
	}
	// every earlier state must still read back after the later writes
	for bi, blk := range blocks[:len(blocks)-1] {
		if err := verifyRoot(db, blk, v1, nil, labels); err != nil {
			t.Fatalf("state %d re-read after later states were written: %v\nhistory: %s", bi, err, d.String())
		}
	}
	if v1 {
		labels["v1"] = true
	} else {
		labels["v0"] = true
	}
	nontrivial = statesWithContent >= 2 && (labels["hashed-v1-value"] || labels["inlined-branch-child"])
	return d.String(), nontrivial, labels
}

func labelList(m map[string]bool) []string {
	ls := make([]string, 0, len(m))
	for l := range m {
		ls = append(ls, l)
	}
	sort.Strings(ls)
	return ls
}

func TestC04Chain(t *testing.T) {
	defer kit.Flush()
	rapid.Check(t, func(t *rapid.T) {
		descr, nt, labels := runChain(t)
		kit.Case(descr, nt, labelList(labels)...)
	})
}
