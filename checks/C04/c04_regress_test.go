package inmemory

import (
	"bytes"
	"fmt"
	"testing"

	kit "github.com/ChainSafe/gossamer/internal/verifkit"
	"github.com/ChainSafe/gossamer/pkg/trie"
)

type c04Step struct {
	child string // "" = main trie
	k, v  string
}

func c04Build(t *testing.T, v1 bool, steps []c04Step) (*InMemoryTrie, *c04DB, c04Block) {
	db := newC04DB()
	tr := NewTrie(nil, db)
	if v1 {
		tr.SetVersion(trie.V1)
	}
	st := c04State{main: kit.OrdMap{}, children: map[string]kit.OrdMap{}}
	for _, s := range steps {
		if s.child == "" {
			if err := tr.Put([]byte(s.k), []byte(s.v)); err != nil {
				t.Fatal(err)
			}
			st.main[s.k] = []byte(s.v)
			continue
		}
		if err := tr.PutIntoChild([]byte(s.child), []byte(s.k), []byte(s.v)); err != nil {
			t.Fatal(err)
		}
		if st.children[s.child] == nil {
			st.children[s.child] = kit.OrdMap{}
		}
		st.children[s.child][s.k] = []byte(s.v)
	}
	root := tr.MustHash()
	if err := tr.WriteDirty(db); err != nil {
		t.Fatal(err)
	}
	return tr, db, c04Block{root: root, state: st}
}

// TestC04Regressions: the shrunk failing cases of TestC04Chain on the pinned
// tree, one per root cause, replayed without the generator (see fixes/*.msg).
func TestC04Regressions(t *testing.T) {
	defer kit.Flush()
	big := string(bytes.Repeat([]byte{0xaa}, 33))
	cases := []struct {
		name  string
		v1    bool
		steps []c04Step
	}{
		// 01: GetFromDB("") returned the (empty, non-nil) value of the root branch 0x00;
		//     GetFromDB(0x10) returned the value of 0x1230 (key diverges inside the branch partial key)
		{"absent-empty-key-root-branch-with-value", false, []c04Step{{"", "\x00", ""}, {"", "\x00\x00", ""}}},
		{"absent-key-diverges-inside-partial-key", false, []c04Step{{"", "\x12\x30", "A"}, {"", "\x12\x31", "B"}}},
		{"absent-key-ends-at-child-branch", false, []c04Step{{"", "\x12\x30", "A"}, {"", "\x12\x30\x01", "B"}, {"", "\x13", "C"}}},
		// 02: GetFromDB of a V1 hashed value returned the 32-byte hash
		{"v1-hashed-leaf", true, []c04Step{{"", "\x00", big}}},
		{"v1-hashed-branch-value", true, []c04Step{{"", "\x00", big}, {"", "\x00\x01", "x"}}},
		// 03: GetFromDB of a key below an inlined branch child: "finding child node with hash 0x"
		{"inlined-branch-child", false, []c04Step{{"", "", ""}, {"", "\x00", ""}, {"", "\x01", ""}}},
		// 04: a main trie whose root is a leaf (its only key is a child trie): the child trie was never written
		{"child-trie-under-leaf-root", false, []c04Step{{"a", "\x00", "a:"}}},
	}
	for _, c := range cases {
		_, db, blk := c04Build(t, c.v1, c.steps)
		if err := verifyRoot(db, blk, c.v1, nil, map[string]bool{}); err != nil {
			t.Errorf("%s: %v", c.name, err)
		}
		kit.Case(c.name, true, "regression")
	}
}

// TestC04KnownChildTriesAlias is the witness of finding C04-child-tries-alias:
// children "a" and "b" get the identical content {01: 02}; then "a" gets a
// second key. Recorded signature: the state still has the key of child "b" but
// the in-memory state cannot read child
// "b" any more (GetChild returns a nil trie / GetFromChild panics); the nodes of
// "b" are never written either, so the persisted state cannot be reloaded.
func TestC04KnownChildTriesAlias(t *testing.T) {
	defer kit.Flush()
	db := newC04DB()
	tr := NewTrie(nil, db)
	must := func(err error) {
		if err != nil {
			t.Fatal(err)
		}
	}
	must(tr.Put([]byte{0xff}, []byte{1}))
	must(tr.PutIntoChild([]byte("a"), []byte{1}, []byte{2}))
	must(tr.PutIntoChild([]byte("b"), []byte{1}, []byte{2}))
	must(tr.PutIntoChild([]byte("a"), []byte{3}, []byte{4}))
	root := tr.MustHash()
	must(tr.WriteDirty(db))

	modelA := kit.OrdMap{"\x01": {2}, "\x03": {4}}
	modelB := kit.OrdMap{"\x01": {2}}

	// in-memory state
	ca, err := tr.GetChild([]byte("a"))
	if err != nil || ca == nil {
		t.Fatalf("different failure: in-memory GetChild(a) = %v, %v", ca, err)
	}
	if err := sameMap(ca.Entries(), modelA); err != nil {
		t.Fatalf("different failure: in-memory child a: %v", err)
	}
	reload := func() error {
		fresh := NewTrie(nil, db)
		if err := fresh.Load(db, root); err != nil {
			return err
		}
		for n, m := range map[string]kit.OrdMap{"a": modelA, "b": modelB} {
			ct, err := fresh.GetChild([]byte(n))
			if err != nil || ct == nil {
				return fmt.Errorf("reloaded GetChild(%q) = %v, %v", n, ct, err)
			}
			if err := sameMap(ct.Entries(), m); err != nil {
				return fmt.Errorf("reloaded child %q: %v", n, err)
			}
		}
		return nil
	}
	cb, err := tr.GetChild([]byte("b"))
	switch {
	case cb == nil && err == nil:
		kit.WitnessResult(c04AliasFinding, true, fmt.Sprintf(
			"after a:{01:02} b:{01:02} a+={03:04}: in-memory GetChild(b) returns (nil, nil) although the state holds child b = {01:02}; reload of the persisted state: %v", reload()))
	case cb != nil && err == nil:
		if e := sameMap(cb.Entries(), modelB); e != nil {
			t.Fatalf("different failure: in-memory child b differs from its content: %v", e)
		}
		if e := reload(); e != nil {
			t.Fatalf("different failure: in-memory state is right but reload fails: %v", e)
		}
		kit.WitnessResult(c04AliasFinding, false, "")
	default:
		t.Fatalf("different failure: in-memory GetChild(b) = %v, %v", cb, err)
	}
}
