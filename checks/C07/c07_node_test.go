package node

// C07 (unit pkg/trie/node): Node.Encode / Decode round trip against an
// independent from-the-spec encoder, and robustness of Decode on hostile bytes.

import (
	"bytes"
	"fmt"
	"runtime/debug"
	"sort"
	"strings"
	"testing"

	"github.com/ChainSafe/gossamer/internal/verifchk/c07kit"
	kit "github.com/ChainSafe/gossamer/internal/verifkit"
	"pgregory.net/rapid"
)

const c07NodeRule = "round trip: a generated abstract node (leaf/branch; value absent/inline/hashed; a branch without value may still carry MustBeHashed=true as the in-memory trie leaves it after deleting a large branch value; children = 32-byte references, leaves around the 32-byte inlining limit, small nested branches; partial key lengths at the header boundaries 15/31/63 (+255k) up to 65535) is built as node.Node, Encode() must equal the from-the-spec encoding byte for byte and Decode() of it must give back kind, partial key, value (or BLAKE2b-256 of it), child bitmap, child references and inlined children, consuming the input exactly; non-trivial = partial key >= 63 nibbles or a branch with an inlined child. " +
	"robustness: truncations/byte mutations/insertions/deletions of valid encodings, any header byte + generated tail, random and fixed hostile strings (declared SCALE lengths capped at 64 KiB) must decode to a well-formed node that can be encoded again, or to an error - never a panic, never an unbounded number of reads; non-trivial = hostile input that still decodes"

type c07Fataler interface {
	Fatalf(format string, args ...any)
}

// c07Build turns the abstract node into the node.Node a caller of the trie
// would hold: fresh dirty nodes, children either stubs carrying a Merkle value
// (as Decode produces them) or real child nodes.
func c07Build(m *c07kit.Node) *Node {
	n := &Node{PartialKey: append([]byte{}, m.PK...), Dirty: true}
	if m.HasValue {
		n.StorageValue = append([]byte{}, m.Value...)
		n.MustBeHashed = m.Hashed
	} else if m.StaleHashFlag {
		n.MustBeHashed = true // no value left, flag not reset: still a plain branch
	}
	if !m.Leaf {
		n.Children = make([]*Node, ChildrenCapacity)
		for i, c := range m.Children {
			switch {
			case c == nil:
			case c.Node == nil:
				n.Children[i] = &Node{MerkleValue: append([]byte{}, c.Ref...)}
			default:
				n.Children[i] = c07Build(c.Node)
			}
		}
	}
	return n
}

// c07Equivalent compares a decoded node with the abstract node.
func c07Equivalent(d *Node, m *c07kit.Node, path string) error {
	if d == nil {
		return fmt.Errorf("%s: decoded to nil (empty node)", path)
	}
	wantKind := Branch
	if m.Leaf {
		wantKind = Leaf
	}
	if d.Kind() != wantKind {
		return fmt.Errorf("%s: kind %s, want %s", path, d.Kind(), wantKind)
	}
	if !bytes.Equal(d.PartialKey, m.PK) {
		return fmt.Errorf("%s: partial key has %d nibbles %.40x, want %d nibbles %.40x", path, len(d.PartialKey), d.PartialKey, len(m.PK), m.PK)
	}
	switch {
	case !m.HasValue:
		if d.StorageValue != nil || d.IsHashedValue {
			return fmt.Errorf("%s: value %x (hashed=%v), want no value", path, d.StorageValue, d.IsHashedValue)
		}
	case m.Hashed:
		h := kit.Blake256(m.Value)
		if !d.IsHashedValue || !bytes.Equal(d.StorageValue, h[:]) {
			return fmt.Errorf("%s: value %x hashed=%v, want the hash %x", path, d.StorageValue, d.IsHashedValue, h)
		}
	default:
		if d.IsHashedValue || d.StorageValue == nil || !bytes.Equal(d.StorageValue, m.Value) {
			return fmt.Errorf("%s: value %.40x (len %d nil=%v hashed=%v), want inline %.40x (len %d)", path, d.StorageValue, len(d.StorageValue), d.StorageValue == nil, d.IsHashedValue, m.Value, len(m.Value))
		}
	}
	if m.Leaf {
		return nil
	}
	if len(d.Children) != ChildrenCapacity {
		return fmt.Errorf("%s: %d child slots", path, len(d.Children))
	}
	for i, c := range m.Children {
		dc := d.Children[i]
		p := fmt.Sprintf("%s/%x", path, i)
		switch {
		case c == nil:
			if dc != nil {
				return fmt.Errorf("%s: unexpected child", p)
			}
		case dc == nil:
			return fmt.Errorf("%s: child missing", p)
		case c.Inlined():
			if err := c07Equivalent(dc, c.Node, p); err != nil {
				return err
			}
		default:
			if !bytes.Equal(dc.MerkleValue, c.Merkle()) {
				return fmt.Errorf("%s: child Merkle value %x, want %x", p, dc.MerkleValue, c.Merkle())
			}
		}
	}
	return nil
}

func c07NodeLabels(m *c07kit.Node, enc []byte) (labels []string, nontrivial bool) {
	set := map[string]bool{}
	switch m.Variant() {
	case c07kit.VLeaf:
		set["leaf"] = true
	case c07kit.VLeafHashed:
		set["leaf-hashed-value"] = true
	case c07kit.VBranch:
		set["branch-no-value"] = true
		if m.StaleHashFlag {
			set["branch-no-value-stale-hash-flag"] = true
		}
	case c07kit.VBranchValue:
		set["branch-inline-value"] = true
	case c07kit.VBranchHashed:
		set["branch-hashed-value"] = true
	}
	l := len(m.PK)
	switch {
	case l == 65535:
		set["pk=65535"] = true
	case l >= 573:
		set["pk>=573"] = true
	case l >= 318:
		set["pk>=318"] = true
	case l >= 63:
		set["pk>=63"] = true
	case l >= 15:
		set["pk>=15"] = true
	}
	if l%2 == 1 {
		set["pk-odd"] = true
	}
	if l == 0 {
		set["pk-empty"] = true
	}
	if m.HasValue && len(m.Value) == 0 {
		set["empty-value"] = true
	}
	if m.HasValue && !m.Hashed && len(m.Value) >= 16384 {
		set["value>=16384"] = true
	}
	inl := false
	for _, c := range m.Children {
		if c == nil {
			continue
		}
		switch {
		case c.Node == nil:
			set["child-ref"] = true
		case c.Inlined():
			inl = true
			if c.Node.Leaf {
				set["child-inlined-leaf"] = true
			} else {
				set["child-inlined-branch"] = true
			}
			if len(c.Merkle()) == 31 {
				set["child-inlined-31-bytes"] = true
			}
		default:
			set["child-hashed-node"] = true
			if len(c.Node.Encode()) == 32 {
				set["child-encoding-32-bytes"] = true
			}
		}
	}
	for s := range set {
		labels = append(labels, s)
	}
	sort.Strings(labels)
	return labels, l >= 63 || inl
}

func c07NodeRoundTrip(t c07Fataler, m *c07kit.Node) {
	want := m.Encode()
	n := c07Build(m)
	buf := bytes.NewBuffer(nil)
	if err := n.Encode(buf); err != nil {
		t.Fatalf("Encode(%s): %v", m.Describe(), err)
	}
	got := buf.Bytes()
	if !bytes.Equal(got, want) {
		i := 0
		for i < len(got) && i < len(want) && got[i] == want[i] {
			i++
		}
		t.Fatalf("Encode(%s): %d bytes, spec encoding has %d bytes; first difference at offset %d: got %.12x want %.12x (header per spec %x)",
			m.Describe(), len(got), len(want), i, got[i:], want[i:], kit.SpecHeader(m.Variant(), len(m.PK)))
	}
	r := c07kit.NewCountingReader(want)
	d, err := Decode(r)
	if err != nil {
		t.Fatalf("Decode(Encode(%s)): %v", m.Describe(), err)
	}
	if err := c07Equivalent(d, m, ""); err != nil {
		t.Fatalf("Decode(Encode(%s)) is not equivalent: %v", m.Describe(), err)
	}
	if r.R.Len() != 0 {
		t.Fatalf("Decode(Encode(%s)) left %d of %d bytes unread", m.Describe(), r.R.Len(), len(want))
	}
	// a decoded node without hashed values is a plain node again: it encodes to the same bytes
	hashedSomewhere := false
	var walk func(x *c07kit.Node)
	walk = func(x *c07kit.Node) {
		if x.Hashed {
			hashedSomewhere = true
		}
		for _, c := range x.Children {
			if c != nil && c.Inlined() {
				walk(c.Node)
			}
		}
	}
	walk(m)
	if !hashedSomewhere {
		buf2 := bytes.NewBuffer(nil)
		if err := d.Encode(buf2); err != nil {
			t.Fatalf("Encode(Decode(Encode(%s))): %v", m.Describe(), err)
		}
		if !bytes.Equal(buf2.Bytes(), want) {
			t.Fatalf("Encode(Decode(e)) != e for %s: %.40x vs %.40x", m.Describe(), buf2.Bytes(), want)
		}
	}
}

func TestC07NodeRoundTrip(t *testing.T) {
	defer kit.Flush()
	kit.Note("rule-node", c07NodeRule)
	rapid.Check(t, func(t *rapid.T) {
		m := c07kit.GenNode(1).Draw(t, "node")
		c07NodeRoundTrip(t, m)
		labels, nontrivial := c07NodeLabels(m, nil)
		kit.Case("node "+m.Describe(), nontrivial, labels...)
	})
}

// c07WellFormed checks what "yields a node" means for a successful Decode.
func c07WellFormed(n *Node, depth int) error {
	if n == nil {
		return nil // the empty node
	}
	if depth > 64 {
		return fmt.Errorf("nesting deeper than 64")
	}
	if len(n.PartialKey) > 65535 {
		return fmt.Errorf("partial key of %d nibbles", len(n.PartialKey))
	}
	for _, b := range n.PartialKey {
		if b > 15 {
			return fmt.Errorf("partial key nibble %#x", b)
		}
	}
	if n.Children != nil {
		if len(n.Children) != ChildrenCapacity {
			return fmt.Errorf("branch with %d child slots", len(n.Children))
		}
		for _, c := range n.Children {
			if c != nil {
				if err := c07WellFormed(c, depth+1); err != nil {
					return err
				}
			}
		}
	} else if n.StorageValue == nil && n.MerkleValue == nil {
		return fmt.Errorf("leaf without value")
	}
	if n.IsHashedValue && len(n.StorageValue) != 32 {
		return fmt.Errorf("hashed value of %d bytes", len(n.StorageValue))
	}
	return nil
}

// c07NodeRobust feeds one byte string to Decode. It returns whether it decoded.
func c07NodeRobust(t c07Fataler, in []byte) (decoded bool, sanitised int) {
	b := append([]byte{}, in...)
	sanitised = c07kit.Sanitize(b)
	r := c07kit.NewCountingReader(b)
	var n *Node
	var err error
	if pv, st := c07Try(func() { n, err = Decode(r) }); pv != nil {
		t.Fatalf("node.Decode(%x) panicked: %v\n%s", b, pv, st)
	}
	if err != nil {
		return false, sanitised
	}
	if r.Bytes > len(b) {
		t.Fatalf("node.Decode(%x) read %d bytes of a %d byte input", b, r.Bytes, len(b))
	}
	if err := c07WellFormed(n, 0); err != nil {
		t.Fatalf("node.Decode(%x) succeeded with a malformed node: %v", b, err)
	}
	if n != nil {
		// every trie node encodes: a node that came out of Decode must too
		if pv, st := c07Try(func() { err = n.Encode(bytes.NewBuffer(nil)) }); pv != nil {
			t.Fatalf("node.Decode(%x) gave a node whose Encode panics: %v\n%s", b, pv, st)
		}
		if err != nil {
			t.Fatalf("node.Decode(%x) gave a node that cannot be encoded: %v", b, err)
		}
	}
	return true, sanitised
}

func c07Try(f func()) (pv any, st string) {
	defer func() {
		if r := recover(); r != nil {
			pv = r
			st = string(debug.Stack())
			if i := strings.Index(st, "panic("); i >= 0 {
				st = st[i:]
			}
			if len(st) > 1500 {
				st = st[:1500]
			}
		}
	}()
	f()
	return nil, ""
}

func TestC07NodeDecodeRobust(t *testing.T) {
	defer kit.Flush()
	kit.Note("rule-node", c07NodeRule)
	rapid.Check(t, func(t *rapid.T) {
		// base encodings are mostly small so that mutations hit structure, not key bytes
		var m *c07kit.Node
		if rapid.IntRange(0, 9).Draw(t, "bigbase") == 0 {
			m = c07kit.GenNode(1).Draw(t, "node")
		} else {
			m = rapid.Custom(func(t *rapid.T) *c07kit.Node {
				n := c07kit.GenNode(1).Draw(t, "n")
				if len(n.PK) > 70 {
					n.PK = n.PK[:len(n.PK)%71]
				}
				return n
			}).Draw(t, "smallnode")
		}
		in, class := c07kit.GenHostile(t, m.Encode())
		decoded, san := c07NodeRobust(t, in)
		labels := []string{"robust:" + class}
		if decoded {
			labels = append(labels, "robust:decodes", "robust:decodes:"+class)
		}
		if san > 0 {
			labels = append(labels, "robust:length-capped")
		}
		d := fmt.Sprintf("%x", in)
		if len(in) > 200 {
			h := kit.Blake256(in)
			d = fmt.Sprintf("%x..(%d bytes, blake2 %x)", in[:100], len(in), h[:8])
		}
		kit.Case("node-robust "+class+" "+d, decoded, labels...)
	})
}

// c07NodeSeeds: valid encodings of fixed shapes + hostile constants.
func c07NodeSeeds() [][]byte {
	ref := kit.Blake256([]byte("ref"))
	v40 := bytes.Repeat([]byte{7}, 40)
	tiny := &c07kit.Node{Leaf: true, HasValue: true, PK: []byte{1}, Value: []byte{9}}
	nodes := []*c07kit.Node{
		{Leaf: true, HasValue: true, PK: []byte{}, Value: []byte{}},
		{Leaf: true, HasValue: true, PK: []byte{1, 2, 3}, Value: []byte{1, 2, 3}},
		{Leaf: true, HasValue: true, Hashed: true, PK: []byte{1, 2}, Value: v40},
		{Leaf: true, HasValue: true, PK: bytes.Repeat([]byte{5}, 63), Value: []byte{1}},
		{Leaf: true, HasValue: true, PK: bytes.Repeat([]byte{5}, 318), Value: []byte{1}},
		{Leaf: true, HasValue: true, Hashed: true, PK: bytes.Repeat([]byte{5}, 31), Value: v40},
		{PK: []byte{4}, Children: [16]*c07kit.Child{0: {Ref: ref[:]}, 15: {Node: tiny}}},
		{PK: []byte{}, HasValue: true, Value: []byte{1, 2}, Children: [16]*c07kit.Child{3: {Node: tiny}, 4: {Ref: ref[:]}}},
		{PK: bytes.Repeat([]byte{3}, 15), HasValue: true, Hashed: true, Value: v40, Children: [16]*c07kit.Child{7: {Ref: ref[:]}}},
		{PK: []byte{1}, Children: [16]*c07kit.Child{2: {Node: &c07kit.Node{PK: []byte{2}, Children: [16]*c07kit.Child{1: {Node: tiny}}}}}},
	}
	var out [][]byte
	for _, n := range nodes {
		out = append(out, n.Encode())
	}
	return append(out, c07kit.Hostile()...)
}

// FuzzC07NodeDecode: native coverage-guided fuzzing of node.Decode (thorough
// tier); in the quick tier only the seed corpus below is executed.
func FuzzC07NodeDecode(f *testing.F) {
	defer kit.Flush()
	for _, s := range c07NodeSeeds() {
		f.Add(s)
	}
	f.Fuzz(func(t *testing.T, data []byte) {
		if len(data) > 1<<17 {
			return
		}
		decoded, _ := c07NodeRobust(t, data)
		kit.Case(fmt.Sprintf("node-fuzz %.64x(%d)", data, len(data)), decoded, "fuzz:node")
	})
}

// TestC07NodeRegressions: shrunk failures on the pinned tree (repaired by the
// fixes/ patches), re-executed deterministically.
func TestC07NodeRegressions(t *testing.T) {
	defer kit.Flush()
	for _, in := range [][]byte{
		{0x01},                         // fixes/01: reserved header byte 0x01 panicked ("not implemented for node variant")
		{0x80, 0x01, 0x00, 0x04, 0x01}, // the same inside an inlined child
		{0x80, 0x01, 0x00, 0x04, 0x00}, // fixes/02: inlined child that is the empty node: nil pointer dereference
		{0x80, 0x01, 0x00, 0x14},       // the same through a short read (child bytes zero-filled)
	} {
		c07NodeRobust(t, in) // node or error, no panic
		kit.Case(fmt.Sprintf("node-regression %x", in), true, "regression")
	}
}
