// Package c07kit holds what the two C07 units (pkg/trie/node and
// pkg/trie/triedb/codec) share: an abstract trie-node model, an encoder of
// that model written from the Polkadot specification (it uses only the
// spec helpers of verifkit and no code of pkg/trie), rapid generators for
// nodes of every shape, mutators that derive hostile byte strings from valid
// encodings, and the declared-length sanitiser.
package c07kit

import (
	"bytes"
	"fmt"
	"strings"

	kit "github.com/ChainSafe/gossamer/internal/verifkit"
	"pgregory.net/rapid"
)

// Variant bits of the node header (spec: defn-node-header).
const (
	VLeaf         = 0b01 << 6
	VBranch       = 0b10 << 6
	VBranchValue  = 0b11 << 6
	VLeafHashed   = 0b001 << 5
	VBranchHashed = 0b0001 << 4
)

// Node is the abstract node: what the specification says a node carries.
type Node struct {
	Leaf     bool
	PK       []byte // partial key, one nibble per byte
	HasValue bool   // leaves always have one
	Value    []byte
	Hashed   bool // the value is stored as its BLAKE2b-256 hash (state version 1, len > 32)
	// StaleHashFlag: a branch without value whose in-memory node still carries
	// MustBeHashed=true (pkg/trie/inmemory leaves the flag set when the large
	// value of a branch is deleted). The encoding is that of a plain branch.
	StaleHashFlag bool
	Children      [16]*Child
}

// Child of a branch: an opaque 32-byte reference, or a node that is inlined
// when its encoding is shorter than 32 bytes and referenced by hash otherwise.
type Child struct {
	Ref  []byte
	Node *Node
}

// Variant returns the header variant bits of n.
func (n *Node) Variant() byte {
	switch {
	case n.Leaf && n.Hashed:
		return VLeafHashed
	case n.Leaf:
		return VLeaf
	case !n.HasValue:
		return VBranch
	case n.Hashed:
		return VBranchHashed
	}
	return VBranchValue
}

// Bitmap returns the children bitmap of n.
func (n *Node) Bitmap() uint16 {
	var bm uint16
	for i, c := range n.Children {
		if c != nil {
			bm |= 1 << uint(i)
		}
	}
	return bm
}

// Encode is the specification encoding of n.
func (n *Node) Encode() []byte {
	out := kit.SpecHeader(n.Variant(), len(n.PK))
	out = append(out, kit.SpecPackNibbles(n.PK)...)
	if !n.Leaf {
		bm := n.Bitmap()
		out = append(out, byte(bm), byte(bm>>8))
	}
	if n.HasValue {
		if n.Hashed {
			h := kit.Blake256(n.Value)
			out = append(out, h[:]...)
		} else {
			out = append(out, kit.SpecCompact(uint64(len(n.Value)))...)
			out = append(out, n.Value...)
		}
	}
	if !n.Leaf {
		for _, c := range n.Children {
			if c == nil {
				continue
			}
			mv := c.Merkle()
			out = append(out, kit.SpecCompact(uint64(len(mv)))...)
			out = append(out, mv...)
		}
	}
	return out
}

// Merkle is the Merkle value of a child: the reference, the encoding when it
// is shorter than 32 bytes, its BLAKE2b-256 hash otherwise.
func (c *Child) Merkle() []byte {
	if c.Node == nil {
		return c.Ref
	}
	enc := c.Node.Encode()
	if len(enc) < 32 {
		return enc
	}
	h := kit.Blake256(enc)
	return h[:]
}

// Inlined reports whether the child is a node whose encoding is inlined.
func (c *Child) Inlined() bool {
	return c.Node != nil && len(c.Node.Encode()) < 32
}

// Describe renders the node canonically and compactly.
func (n *Node) Describe() string {
	var sb strings.Builder
	n.describe(&sb)
	return sb.String()
}

func (n *Node) describe(sb *strings.Builder) {
	if n.Leaf {
		sb.WriteString("L")
	} else {
		sb.WriteString("B")
	}
	if len(n.PK) > 12 {
		fmt.Fprintf(sb, "[pk %d:%x..]", len(n.PK), n.PK[:6])
	} else {
		fmt.Fprintf(sb, "[pk %d:%x]", len(n.PK), n.PK)
	}
	if !n.HasValue && n.StaleHashFlag {
		sb.WriteString("(stale MustBeHashed)")
	}
	if n.HasValue {
		h := ""
		if n.Hashed {
			h = "#"
		}
		if len(n.Value) > 6 {
			fmt.Fprintf(sb, "v%s%d:%x..", h, len(n.Value), n.Value[:3])
		} else {
			fmt.Fprintf(sb, "v%s%d:%x", h, len(n.Value), n.Value)
		}
	}
	if !n.Leaf {
		for i, c := range n.Children {
			if c == nil {
				continue
			}
			if c.Node == nil {
				fmt.Fprintf(sb, " %x=ref%x", i, c.Ref[:2])
			} else {
				fmt.Fprintf(sb, " %x=(", i)
				c.Node.describe(sb)
				sb.WriteString(")")
			}
		}
	}
}

// PKLens are the partial key lengths at which the header changes shape: the
// one-byte limits of the three header widths (63, 31, 15), one and two
// overflow bytes (max+255k), and the maximum 65535.
var PKLens = []int{0, 1, 2, 3, 14, 15, 16, 30, 31, 32, 62, 63, 64, 65,
	269, 270, 271, 285, 286, 287, 317, 318, 319, 524, 525, 526, 540, 541, 572, 573, 574, 65534, 65535}

// GenPK draws a partial key (nibbles).
func GenPK(maxLen int) *rapid.Generator[[]byte] {
	return rapid.Custom(func(t *rapid.T) []byte {
		var n int
		switch rapid.IntRange(0, 9).Draw(t, "pkmode") {
		case 0, 1, 2, 3:
			n = rapid.SampledFrom(PKLens).Draw(t, "pklen")
		case 4:
			n = rapid.IntRange(0, 1200).Draw(t, "pklen")
		default:
			n = rapid.IntRange(0, 70).Draw(t, "pklen")
		}
		if n > maxLen {
			n = maxLen
		}
		if n <= 8 {
			pk := make([]byte, n)
			for i := range pk {
				pk[i] = byte(rapid.IntRange(0, 15).Draw(t, "nib"))
			}
			return pk
		}
		first := byte(rapid.IntRange(0, 15).Draw(t, "nib0"))
		seed := byte(rapid.IntRange(0, 255).Draw(t, "pkseed"))
		pk := make([]byte, n)
		for i := range pk {
			pk[i] = (seed + byte(i)*7 + byte(i>>4)) & 0x0f
		}
		pk[0] = first
		pk[n-1] = seed & 0x0f
		return pk
	})
}

func genBytes(t *rapid.T, n int, label string) []byte {
	seed := rapid.Byte().Draw(t, label)
	v := make([]byte, n)
	for i := range v {
		v[i] = seed ^ byte(i*11+i>>3)
	}
	return v
}

// GenRef draws a 32-byte reference that looks like a hash (never all zero).
func GenRef() *rapid.Generator[[]byte] {
	return rapid.Custom(func(t *rapid.T) []byte {
		h := kit.Blake256([]byte{rapid.Byte().Draw(t, "refseed")})
		return h[:]
	})
}

// ValueLens around the hashing threshold, the compact-length mode boundaries and zero.
var ValueLens = []int{0, 1, 2, 8, 31, 32, 33, 34, 63, 64, 65, 100, 16383, 16384}

func genValue(t *rapid.T, n *Node, allowNone bool) {
	mode := rapid.IntRange(0, 5).Draw(t, "vmode")
	if allowNone && mode == 0 {
		n.StaleHashFlag = rapid.Bool().Draw(t, "staleHashFlag")
		return
	}
	n.HasValue = true
	if mode <= 2 { // hashed: only values longer than 32 bytes are ever hashed (state version 1)
		l := rapid.SampledFrom([]int{33, 34, 40, 64, 100, 1000}).Draw(t, "hvlen")
		n.Value = genBytes(t, l, "vseed")
		n.Hashed = true
		return
	}
	var l int
	if rapid.IntRange(0, 5).Draw(t, "vrnd") == 0 {
		l = rapid.IntRange(0, 200).Draw(t, "vlen")
	} else {
		l = rapid.SampledFrom(ValueLens).Draw(t, "vlen")
	}
	n.Value = genBytes(t, l, "vseed")
}

// GenNode draws a node of any shape. depth bounds nesting of inlined branches.
func GenNode(depth int) *rapid.Generator[*Node] {
	return rapid.Custom(func(t *rapid.T) *Node {
		return genNode(t, depth, 65535)
	})
}

func genSmallLeaf(t *rapid.T) *Node {
	n := &Node{Leaf: true, HasValue: true}
	n.PK = GenPK(rapid.SampledFrom([]int{0, 1, 2, 3, 6}).Draw(t, "cpk")).Draw(t, "pk")
	n.Value = genBytes(t, rapid.SampledFrom([]int{0, 1, 2, 4, 8, 20, 26, 27, 28, 29, 30}).Draw(t, "cvlen"), "cvseed")
	return n
}

func genNode(t *rapid.T, depth, maxPK int) *Node {
	n := &Node{}
	n.Leaf = rapid.IntRange(0, 2).Draw(t, "kind") == 0
	n.PK = GenPK(maxPK).Draw(t, "pk")
	genValue(t, n, !n.Leaf)
	if n.Leaf {
		return n
	}
	var idx []int
	switch rapid.IntRange(0, 3).Draw(t, "fanout") {
	case 0:
		idx = []int{rapid.IntRange(0, 15).Draw(t, "only")}
	case 1:
		for i := 0; i < 16; i++ {
			idx = append(idx, i)
		}
	default:
		bm := rapid.IntRange(1, 0xffff).Draw(t, "bitmap")
		for i := 0; i < 16; i++ {
			if bm>>uint(i)&1 == 1 {
				idx = append(idx, i)
			}
		}
	}
	for _, i := range idx {
		c := &Child{}
		switch rapid.IntRange(0, 5).Draw(t, "childkind") {
		case 0, 1:
			c.Ref = GenRef().Draw(t, "ref")
		case 2, 3:
			c.Node = genSmallLeaf(t) // inlined when < 32 bytes, hashed otherwise (both occur)
		case 4:
			// a leaf that is certainly too big to be inlined
			c.Node = &Node{Leaf: true, HasValue: true, PK: GenPK(40).Draw(t, "pk"), Value: genBytes(t, 40, "bvseed")}
		default:
			if depth > 0 {
				// small nested branch with one or two tiny leaves
				b := &Node{PK: GenPK(2).Draw(t, "pk")}
				if rapid.Bool().Draw(t, "nbv") {
					b.HasValue = true
					b.Value = genBytes(t, rapid.IntRange(0, 3).Draw(t, "nbvl"), "nbvs")
				}
				k := rapid.IntRange(1, 2).Draw(t, "nkids")
				for j := 0; j < k; j++ {
					leaf := &Node{Leaf: true, HasValue: true, PK: GenPK(1).Draw(t, "pk"), Value: genBytes(t, rapid.IntRange(0, 2).Draw(t, "nlv"), "nlvs")}
					b.Children[rapid.IntRange(0, 15).Draw(t, "nidx")] = &Child{Node: leaf}
				}
				c.Node = b
			} else {
				c.Ref = GenRef().Draw(t, "ref")
			}
		}
		n.Children[i] = c
	}
	return n
}

// ---------------------------------------------------------------------------
// hostile inputs

// Hostile are fixed byte strings that decoders of external input must survive.
func Hostile() [][]byte {
	out := [][]byte{
		{}, {0x00}, {0x01}, {0x02}, {0x0f}, {0x01, 0x00}, {0x10}, {0x1f}, {0x20}, {0x3f}, {0x40}, {0x7f}, {0x80}, {0xbf}, {0xc0}, {0xff},
		{0x7f, 0xff}, {0x7f, 0x00}, {0x3f, 0x00}, {0x1f, 0x00},
		{0x80, 0x01, 0x00, 0x04, 0x00},             // branch whose inlined child is the empty node
		{0x80, 0x01, 0x00, 0x04, 0x01},             // branch whose inlined child has the reserved header 0x01
		{0x80, 0x01, 0x00, 0x00},                   // branch whose child has length zero
		{0x80, 0xff, 0xff},                         // 16 children announced, none present
		{0x80, 0x01, 0x00, 0x14, 0x80, 0x01, 0x00}, // nested truncated branch
		{0xc0, 0x00, 0x00, 0x00},                   // branch with empty value and no children
		{0x41, 0x01, 0xfe, 0xff, 0xff, 0xff},       // leaf announcing a 2^30-1 byte value
		{0x41, 0x01, 0x03, 0xff, 0xff, 0xff, 0xff}, // big-integer mode length
		{0x41, 0x01, 0x13, 0, 0, 0, 0, 0, 0, 0, 1}, // 8-byte big-integer length
		{0x41, 0x01, 0xff},                         // reserved big-integer mode
		{0x41, 0x01, 0x01, 0x00},                   // non-canonical two-byte length
		{0x20}, {0x21, 0x0a},                       // hashed leaf without hash
		append([]byte{0x21, 0x0a}, bytes.Repeat([]byte{0xee}, 31)...), // hash one byte short
		append([]byte{0x10, 0x00, 0x00}, bytes.Repeat([]byte{0xee}, 31)...),
	}
	// partial key length that overflows 65535 (header 63 + 257*255 + ...)
	over := append([]byte{0x7f}, bytes.Repeat([]byte{0xff}, 300)...)
	out = append(out, over, append(append([]byte{}, over...), 0x00))
	// exactly 65535 announced but no key bytes
	exact := append([]byte{0x7f}, bytes.Repeat([]byte{0xff}, 256)...)
	exact = append(exact, byte(65535-63-256*255))
	out = append(out, exact)
	return out
}

// GenHostile draws a byte string meant to break a decoder: mutations and
// truncations of the valid encoding enc, a chosen header byte followed by a
// generated tail, raw random bytes, or one of the fixed hostile strings.
// The second result names the class (used as a coverage label).
func GenHostile(t *rapid.T, enc []byte) ([]byte, string) {
	b := append([]byte{}, enc...)
	interesting := []byte{0x00, 0x01, 0x02, 0x03, 0x04, 0x7f, 0x80, 0xfc, 0xfd, 0xfe, 0xff, 0x1f, 0x20, 0x3f, 0x40, 0x0f, 0x10}
	switch rapid.IntRange(0, 9).Draw(t, "hostile") {
	case 0:
		if len(b) > 0 {
			return b[:rapid.IntRange(0, len(b)-1).Draw(t, "cut")], "truncated"
		}
		return b, "truncated"
	case 1, 2:
		if len(b) == 0 {
			return b, "mutated-byte"
		}
		n := rapid.IntRange(1, 3).Draw(t, "nmut")
		for i := 0; i < n; i++ {
			// positions near the start carry the structure; bias towards them
			var p int
			if rapid.Bool().Draw(t, "near") {
				p = rapid.IntRange(0, min(len(b)-1, 8)).Draw(t, "pos")
			} else {
				p = rapid.IntRange(0, len(b)-1).Draw(t, "pos")
			}
			if rapid.Bool().Draw(t, "useint") {
				b[p] = rapid.SampledFrom(interesting).Draw(t, "val")
			} else {
				b[p] ^= 1 << uint(rapid.IntRange(0, 7).Draw(t, "bit"))
			}
		}
		return b, "mutated-byte"
	case 3:
		p := rapid.IntRange(0, len(b)).Draw(t, "pos")
		ins := rapid.SliceOfN(rapid.SampledFrom(interesting), 1, 3).Draw(t, "ins")
		return append(append(append([]byte{}, b[:p]...), ins...), b[p:]...), "inserted"
	case 4:
		if len(b) < 2 {
			return b, "deleted"
		}
		p := rapid.IntRange(0, len(b)-1).Draw(t, "pos")
		return append(append([]byte{}, b[:p]...), b[p+1:]...), "deleted"
	case 5, 6:
		h := rapid.Byte().Draw(t, "header")
		var tail []byte
		if rapid.Bool().Draw(t, "validtail") && len(b) > 1 {
			tail = b[1:]
		} else {
			tail = rapid.SliceOfN(rapid.Byte(), 0, 80).Draw(t, "tail")
		}
		return append([]byte{h}, tail...), "any-header+tail"
	case 7:
		return rapid.SliceOfN(rapid.Byte(), 0, 64).Draw(t, "raw"), "random"
	case 8:
		// structured random: plausible header, short key, then bytes from a small hostile alphabet
		h := rapid.SampledFrom([]byte{0x40, 0x41, 0x42, 0x80, 0x81, 0xc0, 0xc1, 0x20, 0x21, 0x10, 0x11, 0x7f, 0xbf, 0xff, 0x3f, 0x1f}).Draw(t, "sheader")
		tail := rapid.SliceOfN(rapid.SampledFrom(interesting), 0, 40).Draw(t, "stail")
		return append([]byte{h}, tail...), "structured"
	default:
		hs := Hostile()
		return hs[rapid.IntRange(0, len(hs)-1).Draw(t, "hi")], "constant"
	}
}

// MaxDeclared is the largest SCALE byte-string length the C07 inputs declare.
// pkg/scale allocates the declared length before reading (recorded under
// C12/C33, "decodeBytes preallocates"); C07 does not depend on that defect and
// keeps declared lengths bounded, so that a case costs at most ~1 MiB.
const MaxDeclared = 1 << 16

// Sanitize rewrites, in place, every SCALE compact length prefix of the node
// encoding b (value length, child lengths, recursively in inlined children)
// that declares more than MaxDeclared bytes into single-byte mode, and
// returns how many were rewritten. It follows the node format of the
// specification; everything else is left untouched.
func Sanitize(b []byte) int {
	return sanitize(b, 0)
}

func sanitize(b []byte, depth int) int {
	if len(b) == 0 || depth > 40 {
		return 0
	}
	at := func(i int) byte {
		if i < len(b) {
			return b[i]
		}
		return 0
	}
	h := b[0]
	pos := 1
	var max int
	branch, inlineValue, hashedValue := false, false, false
	switch {
	case h>>6 == 1:
		max, inlineValue = 63, true
	case h>>6 == 2:
		max, branch = 63, true
	case h>>6 == 3:
		max, branch, inlineValue = 63, true, true
	case h>>5 == 1:
		max, hashedValue = 31, true
	case h>>4 == 1:
		max, branch, hashedValue = 15, true, true
	default:
		return 0
	}
	pk := int(h) & max
	if pk == max {
		for {
			if pos >= len(b) {
				return 0
			}
			c := b[pos]
			pos++
			pk += int(c)
			if pk > 65535 {
				return 0
			}
			if c < 255 {
				break
			}
		}
	}
	pos += (pk + 1) / 2
	fixed := 0
	// compact returns the declared length at pos and the size of the prefix,
	// rewriting the prefix when it declares too much.
	compact := func() (int, int) {
		if pos >= len(b) {
			return 0, 1
		}
		c := b[pos]
		switch c & 3 {
		case 0:
			return int(c >> 2), 1
		case 1:
			return (int(c) | int(at(pos+1))<<8) >> 2, 2
		case 2:
			v := (int(c) | int(at(pos+1))<<8 | int(at(pos+2))<<16 | int(at(pos+3))<<24) >> 2
			if v <= MaxDeclared {
				return v, 4
			}
		}
		b[pos] = c &^ 3
		fixed++
		return int(b[pos] >> 2), 1
	}
	var bitmap uint16
	if branch {
		bitmap = uint16(at(pos)) | uint16(at(pos+1))<<8
		pos += 2
	}
	if inlineValue {
		l, sz := compact()
		pos += sz + l
	} else if hashedValue {
		pos += 32
	}
	if branch {
		for i := 0; i < 16; i++ {
			if bitmap>>uint(i)&1 == 0 {
				continue
			}
			l, sz := compact()
			pos += sz
			if l < 32 && pos < len(b) {
				end := pos + l
				if end > len(b) {
					end = len(b)
				}
				fixed += sanitize(b[pos:end], depth+1)
			}
			pos += l
		}
	}
	return fixed
}

// CountingReader is a reader over a byte string that counts Read calls and
// bytes handed out. Reads past the end return io.EOF like bytes.Reader.
type CountingReader struct {
	R     *bytes.Reader
	Calls int
	Bytes int
	// Limit is the number of Read calls after which the reader panics
	// ("decoder does not terminate"): a decoder of n bytes that keeps calling
	// Read has stopped making progress.
	Limit int
}

func NewCountingReader(b []byte) *CountingReader {
	return &CountingReader{R: bytes.NewReader(b), Limit: 4*len(b) + 100000}
}

func (c *CountingReader) Read(p []byte) (int, error) {
	c.Calls++
	if c.Calls > c.Limit {
		panic(fmt.Sprintf("c07: decoder called Read %d times on a %d byte input: it does not terminate", c.Calls, c.R.Size()))
	}
	n, err := c.R.Read(p)
	c.Bytes += n
	return n, err
}
