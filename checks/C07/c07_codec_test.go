package codec

// C07 (unit pkg/trie/triedb/codec): codec.Decode of from-the-spec encodings,
// codec.EncodeHeader against the spec header, robustness of codec.Decode.

import (
	"bytes"
	"fmt"
	"runtime/debug"
	"sort"
	"strings"
	"testing"

	chash "github.com/ChainSafe/gossamer/internal/primitives/core/hash"
	"github.com/ChainSafe/gossamer/internal/verifchk/c07kit"
	kit "github.com/ChainSafe/gossamer/internal/verifkit"
	"github.com/ChainSafe/gossamer/pkg/trie/triedb/nibbles"
	"pgregory.net/rapid"
)

const c07CodecRule = "codec: the from-the-spec encoding of a generated abstract node (same generator as the node unit) must decode with codec.Decode to the same kind, partial key nibbles, value (inline bytes or the 32-byte hash), child bitmap and child Merkle values (inline bytes / hash), consuming the input exactly; EncodeHeader(packed key, length, kind) must equal spec header + packed key; non-trivial = partial key >= 63 nibbles or a branch with an inlined child. " +
	"robustness: same hostile inputs as the node unit (declared SCALE lengths capped at 64 KiB): node or error, never a panic, bounded reads; non-trivial = hostile input that still decodes"

type c07Fataler interface {
	Fatalf(format string, args ...any)
}

func c07Nibbles(n nibbles.Nibbles) []byte {
	out := make([]byte, n.Len())
	for i := range out {
		out[i] = n.At(uint(i))
	}
	return out
}

func c07ValueEquivalent(v EncodedValue, m *c07kit.Node) error {
	switch {
	case !m.HasValue:
		if v != nil {
			return fmt.Errorf("value %v, want none", v)
		}
	case m.Hashed:
		h := kit.Blake256(m.Value)
		hv, ok := v.(HashedValue[chash.H256])
		if !ok || !bytes.Equal(hv.Hash.Bytes(), h[:]) {
			return fmt.Errorf("value %#v, want hashed %x", v, h)
		}
	default:
		iv, ok := v.(InlineValue)
		if !ok || !bytes.Equal(iv, m.Value) {
			return fmt.Errorf("value %#v, want inline %.40x (len %d)", v, m.Value, len(m.Value))
		}
	}
	return nil
}

func c07CodecEquivalent(d EncodedNode, m *c07kit.Node) error {
	switch n := d.(type) {
	case Leaf:
		if !m.Leaf {
			return fmt.Errorf("decoded a leaf, want a branch")
		}
		if pk := c07Nibbles(n.PartialKey); !bytes.Equal(pk, m.PK) {
			return fmt.Errorf("partial key %d nibbles %.40x, want %d nibbles %.40x", len(pk), pk, len(m.PK), m.PK)
		}
		return c07ValueEquivalent(n.Value, m)
	case Branch:
		if m.Leaf {
			return fmt.Errorf("decoded a branch, want a leaf")
		}
		if pk := c07Nibbles(n.PartialKey); !bytes.Equal(pk, m.PK) {
			return fmt.Errorf("partial key %d nibbles %.40x, want %d nibbles %.40x", len(pk), pk, len(m.PK), m.PK)
		}
		if err := c07ValueEquivalent(n.Value, m); err != nil {
			return err
		}
		for i, c := range m.Children {
			dc := n.Children[i]
			switch {
			case c == nil:
				if dc != nil {
					return fmt.Errorf("child %x: unexpected", i)
				}
			case dc == nil:
				return fmt.Errorf("child %x: missing", i)
			default:
				mv := c.Merkle()
				if len(mv) < 32 {
					in, ok := dc.(InlineNode)
					if !ok || !bytes.Equal(in, mv) {
						return fmt.Errorf("child %x: %#v, want inline %x", i, dc, mv)
					}
				} else {
					hn, ok := dc.(HashedNode[chash.H256])
					if !ok || !bytes.Equal(hn.Hash.Bytes(), mv) {
						return fmt.Errorf("child %x: %#v, want hash %x", i, dc, mv)
					}
				}
			}
		}
		return nil
	default:
		return fmt.Errorf("decoded %T", d)
	}
}

func c07Kind(m *c07kit.Node) NodeKind {
	switch m.Variant() {
	case c07kit.VLeaf:
		return LeafNode
	case c07kit.VLeafHashed:
		return LeafWithHashedValue
	case c07kit.VBranch:
		return BranchWithoutValue
	case c07kit.VBranchValue:
		return BranchWithValue
	}
	return BranchWithHashedValue
}

func c07CodecLabels(m *c07kit.Node) (labels []string, nontrivial bool) {
	set := map[string]bool{"codec:" + map[NodeKind]string{LeafNode: "leaf", LeafWithHashedValue: "leaf-hashed-value", BranchWithoutValue: "branch-no-value",
		BranchWithValue: "branch-inline-value", BranchWithHashedValue: "branch-hashed-value"}[c07Kind(m)]: true}
	l := len(m.PK)
	switch {
	case l == 65535:
		set["codec:pk=65535"] = true
	case l >= 573:
		set["codec:pk>=573"] = true
	case l >= 318:
		set["codec:pk>=318"] = true
	case l >= 63:
		set["codec:pk>=63"] = true
	case l >= 15:
		set["codec:pk>=15"] = true
	}
	if l%2 == 1 {
		set["codec:pk-odd"] = true
	}
	inl := false
	for _, c := range m.Children {
		if c == nil {
			continue
		}
		if c.Inlined() {
			inl = true
			set["codec:child-inlined"] = true
		} else {
			set["codec:child-hashed"] = true
		}
	}
	for s := range set {
		labels = append(labels, s)
	}
	sort.Strings(labels)
	return labels, l >= 63 || inl
}

func c07CodecRoundTrip(t c07Fataler, m *c07kit.Node) {
	enc := m.Encode()
	r := c07kit.NewCountingReader(enc)
	d, err := Decode[chash.H256](r)
	if err != nil {
		t.Fatalf("codec.Decode(spec encoding of %s): %v", m.Describe(), err)
	}
	if err := c07CodecEquivalent(d, m); err != nil {
		t.Fatalf("codec.Decode(spec encoding of %s) is not equivalent: %v", m.Describe(), err)
	}
	if r.R.Len() != 0 {
		t.Fatalf("codec.Decode(spec encoding of %s) left %d of %d bytes unread", m.Describe(), r.R.Len(), len(enc))
	}
	// header encoder
	packed := kit.SpecPackNibbles(m.PK)
	buf := bytes.NewBuffer(nil)
	if err := EncodeHeader(packed, uint(len(m.PK)), c07Kind(m), buf); err != nil {
		t.Fatalf("EncodeHeader(%d nibbles, kind %d): %v", len(m.PK), c07Kind(m), err)
	}
	want := append(kit.SpecHeader(m.Variant(), len(m.PK)), packed...)
	if !bytes.Equal(buf.Bytes(), want) {
		t.Fatalf("EncodeHeader(%d nibbles, kind %d) = %.16x.., spec %.16x.. (lengths %d / %d)", len(m.PK), c07Kind(m), buf.Bytes(), want, buf.Len(), len(want))
	}
	// the values this package writes decode again in place
	if m.HasValue {
		vb := bytes.NewBuffer(nil)
		var ev EncodedValue = InlineValue(m.Value)
		if m.Hashed {
			h := kit.Blake256(m.Value)
			ev = HashedValue[chash.H256]{Hash: chash.H256(h[:])}
		}
		if err := ev.Write(vb); err != nil {
			t.Fatalf("EncodedValue.Write: %v", err)
		}
		var wantV []byte
		if m.Hashed {
			h := kit.Blake256(m.Value)
			wantV = h[:]
		} else {
			wantV = append(kit.SpecCompact(uint64(len(m.Value))), m.Value...)
		}
		if !bytes.Equal(vb.Bytes(), wantV) {
			t.Fatalf("EncodedValue.Write = %.40x, spec %.40x", vb.Bytes(), wantV)
		}
	}
}

func TestC07CodecRoundTrip(t *testing.T) {
	defer kit.Flush()
	kit.Note("rule-codec", c07CodecRule)
	rapid.Check(t, func(t *rapid.T) {
		m := c07kit.GenNode(1).Draw(t, "node")
		c07CodecRoundTrip(t, m)
		labels, nontrivial := c07CodecLabels(m)
		kit.Case("codec "+m.Describe(), nontrivial, labels...)
	})
}

func c07CodecWellFormed(d EncodedNode) error {
	check := func(pk nibbles.Nibbles) error {
		if pk.Len() > 65535 {
			return fmt.Errorf("partial key of %d nibbles", pk.Len())
		}
		for i := uint(0); i < pk.Len(); i++ {
			if pk.At(i) > 15 {
				return fmt.Errorf("nibble %#x", pk.At(i))
			}
		}
		return nil
	}
	switch n := d.(type) {
	case Empty:
		return nil
	case Leaf:
		if n.Value == nil {
			return fmt.Errorf("leaf without value")
		}
		return check(n.PartialKey)
	case Branch:
		for i, c := range n.Children {
			switch cv := c.(type) {
			case nil:
			case InlineNode:
				if len(cv) >= 32 {
					return fmt.Errorf("child %d: inline node of %d bytes", i, len(cv))
				}
			case HashedNode[chash.H256]:
			default:
				return fmt.Errorf("child %d: %T", i, c)
			}
		}
		return check(n.PartialKey)
	}
	return fmt.Errorf("decoded %T", d)
}

func c07CodecRobust(t c07Fataler, in []byte) (decoded bool, sanitised int) {
	b := append([]byte{}, in...)
	sanitised = c07kit.Sanitize(b)
	r := c07kit.NewCountingReader(b)
	var d EncodedNode
	var err error
	if pv, st := c07Try(func() { d, err = Decode[chash.H256](r) }); pv != nil {
		t.Fatalf("codec.Decode(%x) panicked: %v\n%s", b, pv, st)
	}
	if err != nil {
		return false, sanitised
	}
	if r.Bytes > len(b) {
		t.Fatalf("codec.Decode(%x) read %d bytes of a %d byte input", b, r.Bytes, len(b))
	}
	if err := c07CodecWellFormed(d); err != nil {
		t.Fatalf("codec.Decode(%x) succeeded with a malformed node: %v", b, err)
	}
	return true, sanitised
}

func c07Try(f func()) (pv any, st string) {
	defer func() {
		if r := recover(); r != nil {
			pv = r
			st = string(debug.Stack())
			if i := strings.Index(st, "panic("); i >= 0 {
				st = st[i:]
			}
			if len(st) > 1500 {
				st = st[:1500]
			}
		}
	}()
	f()
	return nil, ""
}

func TestC07CodecDecodeRobust(t *testing.T) {
	defer kit.Flush()
	kit.Note("rule-codec", c07CodecRule)
	rapid.Check(t, func(t *rapid.T) {
		m := rapid.Custom(func(t *rapid.T) *c07kit.Node {
			n := c07kit.GenNode(1).Draw(t, "n")
			if len(n.PK) > 70 && rapid.IntRange(0, 9).Draw(t, "keepbig") != 0 {
				n.PK = n.PK[:len(n.PK)%71]
			}
			return n
		}).Draw(t, "node")
		in, class := c07kit.GenHostile(t, m.Encode())
		decoded, san := c07CodecRobust(t, in)
		labels := []string{"codec-robust:" + class}
		if decoded {
			labels = append(labels, "codec-robust:decodes", "codec-robust:decodes:"+class)
		}
		if san > 0 {
			labels = append(labels, "codec-robust:length-capped")
		}
		d := fmt.Sprintf("%x", in)
		if len(in) > 200 {
			h := kit.Blake256(in)
			d = fmt.Sprintf("%x..(%d bytes, blake2 %x)", in[:100], len(in), h[:8])
		}
		kit.Case("codec-robust "+class+" "+d, decoded, labels...)
	})
}

func c07CodecSeeds() [][]byte {
	ref := kit.Blake256([]byte("ref"))
	v40 := bytes.Repeat([]byte{7}, 40)
	tiny := &c07kit.Node{Leaf: true, HasValue: true, PK: []byte{1}, Value: []byte{9}}
	nodes := []*c07kit.Node{
		{Leaf: true, HasValue: true, PK: []byte{}, Value: []byte{}},
		{Leaf: true, HasValue: true, PK: []byte{1, 2, 3}, Value: []byte{1, 2, 3}},
		{Leaf: true, HasValue: true, Hashed: true, PK: []byte{1, 2}, Value: v40},
		{Leaf: true, HasValue: true, PK: bytes.Repeat([]byte{5}, 63), Value: []byte{1}},
		{Leaf: true, HasValue: true, PK: bytes.Repeat([]byte{5}, 318), Value: []byte{1}},
		{Leaf: true, HasValue: true, Hashed: true, PK: bytes.Repeat([]byte{5}, 31), Value: v40},
		{PK: []byte{4}, Children: [16]*c07kit.Child{0: {Ref: ref[:]}, 15: {Node: tiny}}},
		{PK: []byte{}, HasValue: true, Value: []byte{1, 2}, Children: [16]*c07kit.Child{3: {Node: tiny}, 4: {Ref: ref[:]}}},
		{PK: bytes.Repeat([]byte{3}, 15), HasValue: true, Hashed: true, Value: v40, Children: [16]*c07kit.Child{7: {Ref: ref[:]}}},
	}
	var out [][]byte
	for _, n := range nodes {
		out = append(out, n.Encode())
	}
	return append(out, c07kit.Hostile()...)
}

// FuzzC07CodecDecode: native fuzzing of codec.Decode (thorough tier); the quick
// tier executes the seed corpus only.
func FuzzC07CodecDecode(f *testing.F) {
	defer kit.Flush()
	for _, s := range c07CodecSeeds() {
		f.Add(s)
	}
	f.Fuzz(func(t *testing.T, data []byte) {
		if len(data) > 1<<17 {
			return
		}
		decoded, _ := c07CodecRobust(t, data)
		kit.Case(fmt.Sprintf("codec-fuzz %.64x(%d)", data, len(data)), decoded, "fuzz:codec")
	})
}

func TestC07CodecRegressions(t *testing.T) {
	defer kit.Flush()
	for _, in := range [][]byte{
		{0x01},       // fixes/01: reserved header byte 0x01 panicked ("not implemented for node variant")
		{0x01, 0x00}, // with a tail
	} {
		c07CodecRobust(t, in) // node or error, no panic
		kit.Case(fmt.Sprintf("codec-regression %x", in), true, "regression")
	}
}
