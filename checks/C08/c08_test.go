package storage

// C08 - runtime storage transactions are transparent and roll back exactly.
//
// A generated sequence of main/child storage operations interleaved with nested
// Start/Commit/RollbackTransaction is run on a TrieState over a pre-populated
// in-memory trie and, in lock step, on a reference model of Substrate's
// OverlayedChanges (c08_model_test.go). After every step the complete set of
// reads of the TrieState is compared with the model.

import (
	"bytes"
	"encoding/binary"
	"errors"
	"fmt"
	"sort"
	"strings"
	"testing"

	kit "github.com/ChainSafe/gossamer/internal/verifkit"
	"github.com/ChainSafe/gossamer/pkg/trie"
	"github.com/ChainSafe/gossamer/pkg/trie/inmemory"
	"pgregory.net/rapid"
)

const c08Rule = "1-45 generated ops (put/delete/clear-prefix[limit]/child put/delete/clear-prefix[limit]/child kill[limit]/start/commit/rollback, depth <= 4) " +
	"over the alphabet {a,b} shared by main keys, child names and prefixes, on a TrieState over a pre-populated in-memory trie (V0 or V1); " +
	"all reads compared with a Substrate OverlayedChanges model after every step, reads after rollback compared with those recorded at the matching start, " +
	"final trie entries/child contents/root compared with the model + from-the-spec root and with a second TrieState that applied the surviving ops without transactions; " +
	"non-trivial = a rollback or a nested (depth >= 2) commit closes a transaction in which a prefix clear or a child operation ran; distinct by (initial state, op list)"

const c08ChildPrefix = ":child_storage:default:"

// Key alphabet: bytes 0x61 'a' and 0x62 'b' (non-zero low nibble: the
// zero-low-nibble prefix defect of pkg/trie, a C02 finding, cannot be hit).
var (
	c08Keys      = []string{"a", "b", "aa", "ab", "ba", "bb", "aab", "aba", "bab"}
	c08Queries   = []string{"", "a", "b", "aa", "ab", "ba", "bb", "aab", "aba", "bab"}
	c08Names     = []string{"a", "b", "ab", "ba"}
	c08Prefixes  = []string{"a", "b", "aa", "ab", "ba", "bb"}
	c08CPrefixes = []string{"", "a", "b", "aa", "ab", "ba"}
)

// ---------------------------------------------------------------------------
// readers: the model and the TrieState answer the same set of reads

type c08Reader interface {
	get(k string) []byte // nil = absent
	next(k string) (string, bool)
	entries() map[string][]byte
	cget(c, k string) []byte
	cnext(c, k string) (string, bool)
	ckeys(c, p string) []string // sorted
}

func c08val(v []byte) string {
	if v == nil {
		return "-"
	}
	return fmt.Sprintf("%x", v)
}

func c08Dump(r c08Reader) []string {
	var out []string
	for _, k := range c08Keys { // not "": pkg/trie Get("") answers with the root branch value (C02 matter)
		out = append(out, fmt.Sprintf("Get(%q)=%s", k, c08val(r.get(k))))
	}
	for _, k := range c08Queries {
		n, ok := r.next(k)
		out = append(out, fmt.Sprintf("NextKey(%q)=%q,%v", k, n, ok))
	}
	ents := r.entries()
	ks := make([]string, 0, len(ents))
	for k := range ents {
		ks = append(ks, k)
	}
	sort.Strings(ks)
	var sb strings.Builder
	for _, k := range ks {
		fmt.Fprintf(&sb, " %q:%s", k, c08val(ents[k]))
	}
	out = append(out, "TrieEntries()="+sb.String())
	for _, c := range c08Names {
		for _, k := range c08Keys {
			out = append(out, fmt.Sprintf("GetChildStorage(%q,%q)=%s", c, k, c08val(r.cget(c, k))))
		}
		for _, k := range c08Queries {
			n, ok := r.cnext(c, k)
			out = append(out, fmt.Sprintf("GetChildNextKey(%q,%q)=%q,%v", c, k, n, ok))
		}
		for _, p := range c08CPrefixes {
			out = append(out, fmt.Sprintf("GetKeysWithPrefixFromChild(%q,%q)=%q", c, p, r.ckeys(c, p)))
		}
	}
	return out
}

func c08Diff(a, b []string) string {
	for i := range a {
		if i >= len(b) || a[i] != b[i] {
			return fmt.Sprintf("TrieState: %s | model: %s", a[i], b[i])
		}
	}
	return ""
}

// c08TB is what the harness needs from *rapid.T / *testing.T.
type c08TB interface {
	Fatalf(format string, args ...any)
}

// implReader reads through the public TrieState API.
type c08Impl struct {
	t  c08TB
	ts *TrieState
}

func (r c08Impl) get(k string) []byte {
	v := r.ts.Get([]byte(k))
	if v == nil {
		return nil
	}
	return append([]byte{}, v...)
}

func (r c08Impl) next(k string) (string, bool) {
	cur := []byte(k)
	for i := 0; i < 64; i++ {
		n := r.ts.NextKey(cur)
		if n == nil {
			return "", false
		}
		if bytes.Compare(n, cur) <= 0 {
			r.t.Fatalf("NextKey(%q) returned %q which is not greater", cur, n)
		}
		// child root entries of the main trie are not part of the compared
		// main storage (DESIGN: compared after the final commit only)
		if !bytes.HasPrefix(n, []byte(c08ChildPrefix)) {
			return string(n), true
		}
		cur = n
	}
	r.t.Fatalf("NextKey does not leave the child storage key range")
	return "", false
}

func (r c08Impl) entries() map[string][]byte {
	out := map[string][]byte{}
	for k, v := range r.ts.TrieEntries() {
		if strings.HasPrefix(k, c08ChildPrefix) {
			continue
		}
		if v == nil {
			v = []byte{}
		}
		out[k] = v
	}
	return out
}

func (r c08Impl) noChild(err error, what string) {
	if err != nil && !errors.Is(err, trie.ErrChildTrieDoesNotExist) {
		r.t.Fatalf("%s: unexpected error %v", what, err)
	}
}

func (r c08Impl) cget(c, k string) []byte {
	v, err := r.ts.GetChildStorage([]byte(c), []byte(k))
	r.noChild(err, "GetChildStorage")
	if err != nil || v == nil {
		return nil
	}
	return append([]byte{}, v...)
}

func (r c08Impl) cnext(c, k string) (string, bool) {
	n, err := r.ts.GetChildNextKey([]byte(c), []byte(k))
	r.noChild(err, "GetChildNextKey")
	if err != nil || n == nil {
		return "", false
	}
	return string(n), true
}

func (r c08Impl) ckeys(c, p string) []string {
	ks, err := r.ts.GetKeysWithPrefixFromChild([]byte(c), []byte(p))
	r.noChild(err, "GetKeysWithPrefixFromChild")
	out := []string{}
	if err != nil {
		return out
	}
	for _, k := range ks {
		out = append(out, string(k))
	}
	sort.Strings(out)
	return out
}

// ---------------------------------------------------------------------------
// operations

type c08Op struct {
	kind  string // put del clr clrl cput cdel cclr cclrl kill killl start commit rollback
	c, k  string
	v     []byte
	limit int // -1 = none
}

func (o c08Op) String() string {
	switch o.kind {
	case "put":
		return fmt.Sprintf("Put(%s,%x)", o.k, o.v)
	case "del":
		return fmt.Sprintf("Delete(%s)", o.k)
	case "clr":
		return fmt.Sprintf("ClearPrefix(%s)", o.k)
	case "clrl":
		return fmt.Sprintf("ClearPrefixLimit(%s,%d)", o.k, o.limit)
	case "cput":
		return fmt.Sprintf("SetChild(%s|%s,%x)", o.c, o.k, o.v)
	case "cdel":
		return fmt.Sprintf("ClearChild(%s|%s)", o.c, o.k)
	case "cclr":
		return fmt.Sprintf("ClearPrefixInChild(%s|%s)", o.c, o.k)
	case "cclrl":
		return fmt.Sprintf("ClearPrefixInChildLimit(%s|%s,%d)", o.c, o.k, o.limit)
	case "kill":
		return fmt.Sprintf("DeleteChild(%s)", o.c)
	case "killl":
		return fmt.Sprintf("DeleteChildLimit(%s,%d)", o.c, o.limit)
	}
	return o.kind
}

func c08LimitArg(limit int) *[]byte {
	if limit < 0 {
		return nil
	}
	b := make([]byte, 4)
	binary.LittleEndian.PutUint32(b, uint32(limit))
	return &b
}

// applyImpl runs one op on the TrieState. childEmpty tells whether the child
// addressed by the op has no keys (then "child trie does not exist" errors are
// what the contract allows; Substrate treats the call as a no-op).
func c08ApplyImpl(t c08TB, ts *TrieState, o c08Op, childEmpty bool) {
	var err error
	switch o.kind {
	case "put":
		err = ts.Put([]byte(o.k), append([]byte{}, o.v...))
	case "del":
		err = ts.Delete([]byte(o.k))
	case "clr":
		err = ts.ClearPrefix([]byte(o.k))
	case "clrl":
		_, _, err = ts.ClearPrefixLimit([]byte(o.k), uint32(o.limit))
	case "cput":
		err = ts.SetChildStorage([]byte(o.c), []byte(o.k), append([]byte{}, o.v...))
	case "cdel":
		err = ts.ClearChildStorage([]byte(o.c), []byte(o.k))
	case "cclr":
		err = ts.ClearPrefixInChild([]byte(o.c), []byte(o.k))
	case "cclrl":
		_, _, err = ts.ClearPrefixInChildWithLimit([]byte(o.c), []byte(o.k), uint32(o.limit))
	case "kill":
		err = ts.DeleteChild([]byte(o.c))
	case "killl":
		_, _, err = ts.DeleteChildLimit([]byte(o.c), c08LimitArg(o.limit))
	case "start":
		ts.StartTransaction()
	case "commit":
		ts.CommitTransaction()
	case "rollback":
		ts.RollbackTransaction()
	default:
		t.Fatalf("unknown op %s", o.kind)
	}
	if err != nil {
		if childEmpty && errors.Is(err, trie.ErrChildTrieDoesNotExist) {
			return
		}
		t.Fatalf("%s: unexpected error: %v", o, err)
	}
}

func c08ApplyModel(m *c08Model, o c08Op) {
	switch o.kind {
	case "put":
		m.put(o.k, o.v)
	case "del":
		m.del(o.k)
	case "clr":
		m.clearPrefix(o.k, -1)
	case "clrl":
		m.clearPrefix(o.k, o.limit)
	case "cput":
		m.cput(o.c, o.k, o.v)
	case "cdel":
		m.cdel(o.c, o.k)
	case "cclr":
		m.cclearPrefix(o.c, o.k, -1)
	case "cclrl":
		m.cclearPrefix(o.c, o.k, o.limit)
	case "kill":
		m.cclearPrefix(o.c, "", -1)
	case "killl":
		m.cclearPrefix(o.c, "", o.limit)
	case "start":
		m.start()
	case "commit":
		m.commit()
	case "rollback":
		m.rollback()
	}
}

var c08Values = [][]byte{{0x01}, {0x02}, {0x03, 0x04}, bytes.Repeat([]byte{0x33}, 33), bytes.Repeat([]byte{0x40}, 40), {}}

func c08GenValue(t *rapid.T) []byte {
	return c08Values[rapid.SampledFrom([]int{0, 0, 1, 1, 2, 2, 3, 4, 5}).Draw(t, "v")]
}

// c08GenChildValue tags the value with the child name, so that two child tries
// never have identical content: pkg/trie/inmemory keys its child tries by root
// hash and aliases children with equal content (a C04 matter, not a defect of
// the transaction layer).
func c08GenChildValue(t *rapid.T, c string) []byte {
	return append(append([]byte{}, c08GenValue(t)...), []byte(c)...)
}

// c08InitState draws the initial (committed) state.
func c08InitState(t *rapid.T) (kit.OrdMap, map[string]kit.OrdMap) {
	main := kit.OrdMap{}
	for i, n := 0, rapid.IntRange(0, 4).Draw(t, "nmain"); i < n; i++ {
		main[rapid.SampledFrom(c08Keys).Draw(t, "mk")] = c08GenValue(t)
	}
	children := map[string]kit.OrdMap{}
	for i, n := 0, rapid.IntRange(0, 2).Draw(t, "nchild"); i < n; i++ {
		c := rapid.SampledFrom(c08Names).Draw(t, "cn")
		cm := kit.OrdMap{}
		for j, nk := 0, rapid.IntRange(1, 3).Draw(t, "nck"); j < nk; j++ {
			cm[rapid.SampledFrom(c08Keys).Draw(t, "ck")] = c08GenChildValue(t, c)
		}
		children[c] = cm
	}
	return main, children
}

func c08BuildTrie(t c08TB, main kit.OrdMap, children map[string]kit.OrdMap, v1 bool) *inmemory.InMemoryTrie {
	tr := inmemory.NewEmptyTrie()
	if v1 {
		tr.SetVersion(trie.V1)
	}
	for _, k := range main.Keys() {
		if err := tr.Put([]byte(k), append([]byte{}, main[k]...)); err != nil {
			t.Fatalf("building: %v", err)
		}
	}
	cs := make([]string, 0, len(children))
	for c := range children {
		cs = append(cs, c)
	}
	sort.Strings(cs)
	for _, c := range cs {
		for _, k := range children[c].Keys() {
			if err := tr.PutIntoChild([]byte(c), []byte(k), append([]byte{}, children[c][k]...)); err != nil {
				t.Fatalf("building child: %v", err)
			}
		}
	}
	return tr
}

func c08DescribeInit(main kit.OrdMap, children map[string]kit.OrdMap) string {
	var sb strings.Builder
	sb.WriteString("main" + main.Describe())
	cs := make([]string, 0, len(children))
	for c := range children {
		cs = append(cs, c)
	}
	sort.Strings(cs)
	for _, c := range cs {
		fmt.Fprintf(&sb, " child[%s]%s", c, children[c].Describe())
	}
	return sb.String()
}

// c08CheckFinal compares the committed trie with the committed model state.
func c08CheckFinal(t c08TB, tr trie.Trie, m *c08Model, v1 bool, who string) {
	want := kit.OrdMap{}
	for k, v := range m.bMain {
		want[k] = v
	}
	for _, c := range c08Names {
		cm := m.bChild[c]
		child, err := tr.GetChild([]byte(c))
		if len(cm) == 0 {
			if err == nil && child != nil && len(child.Entries()) > 0 {
				t.Fatalf("%s: child %q should be gone, trie has %v", who, c, child.Entries())
			}
			continue
		}
		root := kit.SpecRoot(cm, v1)
		want[c08ChildPrefix+c] = root[:]
		if err != nil || child == nil {
			t.Fatalf("%s: child %q missing (err %v), model %s", who, c, err, cm.Describe())
		}
		got := child.Entries()
		if len(got) != len(cm) {
			t.Fatalf("%s: child %q entries: trie %x, model %s", who, c, got, cm.Describe())
		}
		for k, v := range cm {
			gv, ok := got[k]
			if !ok || !bytes.Equal(gv, v) {
				t.Fatalf("%s: child %q key %q: trie %x (present %v), model %x", who, c, k, gv, ok, v)
			}
		}
	}
	got := tr.Entries()
	for k, v := range want {
		gv, ok := got[k]
		if !ok || !bytes.Equal(gv, v) {
			t.Fatalf("%s: committed main trie key %q: trie %x (present %v), model %x", who, k, gv, ok, v)
		}
	}
	for k, v := range got {
		if _, ok := want[k]; !ok {
			t.Fatalf("%s: committed main trie has extra key %q=%x; model %s", who, k, v, want.Describe())
		}
	}
	h, err := tr.Hash()
	if err != nil {
		t.Fatalf("%s: Hash: %v", who, err)
	}
	spec := kit.SpecRoot(want, v1)
	if !bytes.Equal(h[:], spec[:]) {
		t.Fatalf("%s: root %s, spec root %x of %s", who, h, spec, want.Describe())
	}
}

// c08Finding names of known findings (see findings.json) used for steering.
const (
	c08FindLimit = "C08-limit-counts-merged-keys"
)

type c08Run struct {
	t        c08TB
	rt       *rapid.T
	ts       *TrieState
	m        *c08Model
	labels   map[string]bool
	startRds [][]string // reads recorded at each open StartTransaction
	flagged  []bool     // per open tx: a prefix/child op ran in it
	logs     [][]c08Op  // logs[0] = committed (direct) ops, logs[i] = ops of open tx i
	killed   map[string]bool
	nontriv  bool
	descr    strings.Builder
}

// effectOps expresses a limited clear as the explicit deletions the model
// performed, for the transaction-free replay (where every key is a backend key
// and a limit would count differently).
func (r *c08Run) effectOps(o c08Op) []c08Op {
	switch o.kind {
	case "clrl":
		before := r.m.mainView()
		c08ApplyModel(r.m, o)
		after := r.m.mainView()
		var out []c08Op
		for _, k := range before.Keys() {
			if _, ok := after[k]; !ok {
				out = append(out, c08Op{kind: "del", k: k})
			}
		}
		return out
	case "cclrl", "killl":
		before := r.m.childView(o.c)
		c08ApplyModel(r.m, o)
		after := r.m.childView(o.c)
		var out []c08Op
		for _, k := range before.Keys() {
			if _, ok := after[k]; !ok {
				out = append(out, c08Op{kind: "cdel", c: o.c, k: k})
			}
		}
		return out
	}
	c08ApplyModel(r.m, o)
	return []c08Op{o}
}

func (r *c08Run) step(i int, o c08Op) {
	t := r.t
	depth := r.m.depth()
	fmt.Fprintf(&r.descr, " %s", o)
	childEmpty := o.c != "" && len(r.m.childView(o.c)) == 0
	switch o.kind {
	case "clr", "clrl":
		if _, ok := r.m.mainView()[o.k]; ok {
			r.labels["key-equal-to-cleared-prefix"] = true
		}
		if o.limit >= 0 && o.limit < len(r.m.mainView().WithPrefix([]byte(o.k))) {
			r.labels["limit<matches"] = true
		}
	case "cclr", "cclrl", "kill", "killl":
		if _, ok := r.m.childView(o.c)[o.k]; ok && o.kind[0] == 'c' {
			r.labels["child-key-equal-to-cleared-prefix"] = true
		}
		if o.limit >= 0 && o.limit < len(r.m.childView(o.c).WithPrefix([]byte(o.k))) {
			r.labels["limit<matches"] = true
		}
		if (o.kind == "kill" || o.kind == "killl" && o.limit < 0) && !childEmpty {
			r.killed[o.c] = true
		}
	case "cput":
		if r.killed[o.c] && childEmpty {
			r.labels["child-recreated-after-deletion"] = true
		}
	}
	if depth > 0 && o.kind != "put" && o.kind != "del" && o.kind != "start" && o.kind != "commit" && o.kind != "rollback" {
		r.flagged[depth-1] = true
	}

	c08ApplyImpl(t, r.ts, o, childEmpty)
	switch o.kind {
	case "start":
		c08ApplyModel(r.m, o)
		r.logs = append(r.logs, nil)
		r.flagged = append(r.flagged, false)
	case "commit":
		c08ApplyModel(r.m, o)
		n := len(r.logs)
		r.logs[n-2] = append(r.logs[n-2], r.logs[n-1]...)
		r.logs = r.logs[:n-1]
		f := r.flagged[depth-1]
		r.flagged = r.flagged[:depth-1]
		if depth >= 2 {
			r.labels["nested-commit"] = true
			if f {
				r.nontriv = true
				r.flagged[depth-2] = true
			}
		} else {
			r.labels["outermost-commit"] = true
		}
	case "rollback":
		c08ApplyModel(r.m, o)
		r.logs = r.logs[:len(r.logs)-1]
		r.labels["rollback"] = true
		if r.flagged[depth-1] {
			r.nontriv = true
		}
		r.flagged = r.flagged[:depth-1]
	default:
		eff := r.effectOps(o)
		r.logs[len(r.logs)-1] = append(r.logs[len(r.logs)-1], eff...)
	}
	if r.m.depth() >= 3 {
		r.labels["depth>=3"] = true
	}

	got := c08Dump(c08Impl{t, r.ts})
	want := c08Dump(r.m)
	if d := c08Diff(got, want); d != "" {
		t.Fatalf("after step %d (%s, depth before %d): %s\nhistory:%s", i, o, depth, d, r.descr.String())
	}
	switch o.kind {
	case "start":
		r.startRds = append(r.startRds, got)
	case "commit":
		r.startRds = r.startRds[:len(r.startRds)-1]
	case "rollback":
		rec := r.startRds[len(r.startRds)-1]
		r.startRds = r.startRds[:len(r.startRds)-1]
		if d := c08Diff(got, rec); d != "" {
			t.Fatalf("after rollback at step %d reads differ from those at the matching start: now/then %s\nhistory:%s", i, d, r.descr.String())
		}
	}
	// label: a main key named like a child that currently has keys
	mv := r.m.mainView()
	for _, c := range c08Names {
		if _, ok := mv[c]; ok && len(r.m.childView(c)) > 0 {
			r.labels["main-key-named-like-child"] = true
		}
	}
}

func (r *c08Run) genOp() c08Op {
	t := r.rt
	depth := r.m.depth()
	kinds := []string{"put", "put", "put", "del", "del", "clr", "clr", "clrl", "clrl",
		"cput", "cput", "cput", "cdel", "cclr", "cclrl", "kill", "killl", "killl", "start", "start", "start"}
	if depth > 0 {
		kinds = append(kinds, "commit", "commit", "rollback", "rollback")
	}
	kind := rapid.SampledFrom(kinds).Draw(t, "op")
	if kind == "start" && depth >= 4 {
		kind = "put"
	}
	o := c08Op{kind: kind, limit: -1}
	switch kind {
	case "put":
		o.k = rapid.SampledFrom(c08Keys).Draw(t, "k")
		o.v = c08GenValue(t)
	case "del":
		o.k = rapid.SampledFrom(c08Keys).Draw(t, "k")
	case "clr", "clrl":
		o.k = rapid.SampledFrom(c08Prefixes).Draw(t, "p")
	case "cput":
		o.c = rapid.SampledFrom(c08Names).Draw(t, "c")
		o.k = rapid.SampledFrom(c08Keys).Draw(t, "k")
		o.v = c08GenChildValue(t, o.c)
	case "cdel":
		o.c = rapid.SampledFrom(c08Names).Draw(t, "c")
		o.k = rapid.SampledFrom(c08Keys).Draw(t, "k")
	case "cclr", "cclrl":
		o.c = rapid.SampledFrom(c08Names).Draw(t, "c")
		o.k = rapid.SampledFrom(c08CPrefixes).Draw(t, "p")
	case "kill", "killl":
		o.c = rapid.SampledFrom(c08Names).Draw(t, "c")
	}
	if kind == "clrl" || kind == "cclrl" || kind == "killl" {
		o.limit = rapid.IntRange(0, 3).Draw(t, "limit")
		if kind == "killl" && rapid.IntRange(0, 3).Draw(t, "nolimit") == 0 {
			o.limit = -1
		}
		r.steerLimit(&o)
	}
	return o
}

// steerLimit keeps limited clears inside what this check can judge.
func (r *c08Run) steerLimit(o *c08Op) {
	depth := r.m.depth()
	if o.limit < 0 {
		return
	}
	var view kit.OrdMap
	if o.kind == "clrl" {
		view = r.m.mainView()
	} else {
		view = r.m.childView(o.c)
	}
	matches := len(view.WithPrefix([]byte(o.k)))
	if depth == 0 {
		// Outside a transaction ClearPrefixLimit/ClearPrefixInChildWithLimit
		// delegate to pkg/trie's ClearPrefixLimit, whose deletion order is a
		// C02 matter: only limits that cover every match are used here.
		if (o.kind == "clrl" || o.kind == "cclrl") && o.limit < matches {
			o.limit = matches
		}
		return
	}
	if kit.KnownOpen(c08FindLimit) {
		// trigger class of the finding: limited clear inside a transaction
		// where the overlay holds a value for a key with the prefix and the
		// limit does not exceed the number of backend keys with the prefix
		// (with a larger limit both semantics remove everything; without
		// overlay values both delete the first `limit` backend keys).
		ovVal, backend := r.m.limitShape(o.kind == "clrl", o.c, o.k)
		if ovVal > 0 && o.limit <= backend {
			kit.Excluded(c08FindLimit)
			o.limit = backend + 1
		}
	}
}

func c08NewRun(t c08TB, rt *rapid.T, v1 bool, main kit.OrdMap, children map[string]kit.OrdMap) *c08Run {
	ts := NewTrieState(c08BuildTrie(t, main, children, v1))
	r := &c08Run{t: t, rt: rt, ts: ts, m: newC08Model(main, children), labels: map[string]bool{}, logs: [][]c08Op{nil}, killed: map[string]bool{}}
	fmt.Fprintf(&r.descr, "v1=%v %s |", v1, c08DescribeInit(main, children))
	if v1 {
		r.labels["v1"] = true
	}
	// the initial reads agree (validates the harness and the pre-population)
	if d := c08Diff(c08Dump(c08Impl{t, ts}), c08Dump(r.m)); d != "" {
		t.Fatalf("initial reads: %s\n%s", d, r.descr.String())
	}
	return r
}

// finish: the committed trie equals the model (entries, child contents, spec
// root) and equals a second TrieState that applied the surviving operations
// directly, without transactions.
func (r *c08Run) finish(v1 bool, main kit.OrdMap, children map[string]kit.OrdMap) {
	t := r.t
	c08CheckFinal(t, r.ts.Trie(), r.m, v1, "after final commit of ["+r.descr.String()+"]")
	ts2 := NewTrieState(c08BuildTrie(t, main, children, v1))
	m2 := newC08Model(main, children)
	for _, o := range r.logs[0] {
		c08ApplyImpl(t, ts2, o, o.c != "" && len(m2.childView(o.c)) == 0)
		c08ApplyModel(m2, o)
	}
	c08CheckFinal(t, ts2.Trie(), r.m, v1, fmt.Sprintf("transaction-free replay %v of the surviving ops of [%s]", r.logs[0], r.descr.String()))
	h1, _ := r.ts.Trie().Hash()
	h2, _ := ts2.Trie().Hash()
	if h1 != h2 {
		t.Fatalf("root with transactions %s != root of direct application %s", h1, h2)
	}
}

// c08Script runs a fixed op list through the same oracle (regressions).
func c08Script(t c08TB, v1 bool, main kit.OrdMap, children map[string]kit.OrdMap, ops []c08Op) {
	r := c08NewRun(t, nil, v1, main, children)
	i := 0
	for ; i < len(ops); i++ {
		r.step(i, ops[i])
	}
	for ; r.m.depth() > 0; i++ {
		r.step(i, c08Op{kind: "commit", limit: -1})
	}
	r.finish(v1, main, children)
}

func c08Property(t *rapid.T) {
	v1 := rapid.Bool().Draw(t, "v1")
	main, children := c08InitState(t)
	r := c08NewRun(t, t, v1, main, children)
	n := rapid.IntRange(1, 45).Draw(t, "n")
	for i := 0; i < n; i++ {
		r.step(i, r.genOp())
	}
	// close what is still open; the outermost transaction is committed or rolled back
	for i := n; r.m.depth() > 0; i++ {
		kind := "commit"
		if rapid.IntRange(0, 3).Draw(t, "finalRollback") == 0 {
			kind = "rollback"
		}
		r.step(i, c08Op{kind: kind, limit: -1})
	}
	r.finish(v1, main, children)

	if len(r.m.bChild) > 0 {
		r.labels["final-has-children"] = true
	}
	var ls []string
	for l := range r.labels {
		ls = append(ls, l)
	}
	sort.Strings(ls)
	kit.Case(r.descr.String(), r.nontriv, ls...)
}

func TestC08Transactions(t *testing.T) {
	defer kit.Flush()
	kit.Note("rule", c08Rule)
	rapid.Check(t, c08Property)
}
