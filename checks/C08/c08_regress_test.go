package storage

import (
	"bytes"
	"fmt"
	"testing"
	"time"

	kit "github.com/ChainSafe/gossamer/internal/verifkit"
)

func c08M(kv ...string) kit.OrdMap {
	m := kit.OrdMap{}
	for i := 0; i+1 < len(kv); i += 2 {
		m[kv[i]] = []byte(kv[i+1])
	}
	return m
}

func c08Ops(ops ...c08Op) []c08Op { return ops }

func opStart() c08Op    { return c08Op{kind: "start", limit: -1} }
func opCommit() c08Op   { return c08Op{kind: "commit", limit: -1} }
func opRollback() c08Op { return c08Op{kind: "rollback", limit: -1} }
func opPut(k, v string) c08Op {
	return c08Op{kind: "put", k: k, v: []byte(v), limit: -1}
}
func opDel(k string) c08Op { return c08Op{kind: "del", k: k, limit: -1} }
func opClr(p string) c08Op { return c08Op{kind: "clr", k: p, limit: -1} }
func opClrL(p string, l int) c08Op {
	return c08Op{kind: "clrl", k: p, limit: l}
}
func opCPut(c, k, v string) c08Op {
	return c08Op{kind: "cput", c: c, k: k, v: []byte(v), limit: -1}
}
func opCDel(c, k string) c08Op { return c08Op{kind: "cdel", c: c, k: k, limit: -1} }
func opCClr(c, p string) c08Op { return c08Op{kind: "cclr", c: c, k: p, limit: -1} }
func opCClrL(c, p string, l int) c08Op {
	return c08Op{kind: "cclrl", c: c, k: p, limit: l}
}
func opKill(c string) c08Op { return c08Op{kind: "kill", c: c, limit: -1} }
func opKillL(c string, l int) c08Op {
	return c08Op{kind: "killl", c: c, limit: l}
}

// TestC08Regressions: shrunk failures found by TestC08Transactions on the
// pinned tree, one or more per repaired root cause (fixes/*.patch), run through
// the same oracle (all reads after every step, final contents and root, direct
// replay).
func TestC08Regressions(t *testing.T) {
	defer kit.Flush()
	type rc struct {
		name     string
		main     kit.OrdMap
		children map[string]kit.OrdMap
		ops      []c08Op
	}
	cases := []rc{
		// fixes/01: backend keys of a prefix inside a transaction
		{"clear-prefix-key-equal-to-prefix", c08M("a", "1", "ab", "2", "b", "3"), nil,
			c08Ops(opStart(), opClr("a"))},
		{"clear-prefix-limit-key-equal-to-prefix", c08M("a", "1", "ab", "2"), nil,
			c08Ops(opStart(), opClrL("a", 1))},
		{"child-clear-prefix-key-equal-to-prefix", nil, map[string]kit.OrdMap{"a": c08M("a", "1", "ab", "2", "b", "3")},
			c08Ops(opStart(), opCClr("a", "a"), opRollback(), opStart(), opCClrL("a", "a", 2))},
		// fixes/02: child tries and main keys are separate key spaces
		{"delete-child-keeps-main-key-of-same-name", c08M("a", "1"), map[string]kit.OrdMap{"a": c08M("b", "2")},
			c08Ops(opStart(), opKill("a"))},
		{"delete-child-of-absent-child-keeps-main-key", c08M("a", "1"), nil,
			c08Ops(opStart(), opKill("a"))},
		{"delete-child-limit-nil-keeps-main-key", c08M("a", "1"), map[string]kit.OrdMap{"a": c08M("b", "2")},
			c08Ops(opStart(), opKillL("a", -1))},
		{"main-delete-keeps-pending-child-changes", c08M("a", "1"), nil,
			c08Ops(opStart(), opCPut("a", "b", "2"), opDel("a"))},
		{"main-delete-keeps-state-child", c08M("a", "1"), map[string]kit.OrdMap{"a": c08M("b", "2")},
			c08Ops(opStart(), opDel("a"))},
		{"main-clear-prefix-keeps-child", c08M("a", "1", "ab", "1"), map[string]kit.OrdMap{"ab": c08M("b", "2")},
			c08Ops(opStart(), opCPut("a", "a", "3"), opClr("a"))},
		{"main-put-does-not-resurrect-deleted-child", nil, map[string]kit.OrdMap{"a": c08M("b", "2")},
			c08Ops(opStart(), opKill("a"), opPut("a", "1"))},
		{"child-put-does-not-resurrect-deleted-main-key", c08M("a", "1"), nil,
			c08Ops(opStart(), opDel("a"), opCPut("a", "b", "2"))},
		{"deleted-child-reads-nothing-from-state", nil, map[string]kit.OrdMap{"a": c08M("b", "2", "bb", "3")},
			c08Ops(opStart(), opKill("a"))},
		{"child-recreated-after-deletion", nil, map[string]kit.OrdMap{"a": c08M("b", "2", "bb", "3")},
			c08Ops(opStart(), opKill("a"), opCPut("a", "aa", "4"), opStart(), opKill("a"), opRollback())},
		// fixes/03: a child key written again after its deletion
		{"child-key-set-after-clear", nil, map[string]kit.OrdMap{"a": c08M("b", "2")},
			c08Ops(opStart(), opCDel("a", "b"), opCPut("a", "b", "5"))},
		// fixes/04: GetKeysWithPrefixFromChild merges overlay and state
		{"child-keys-merge-upserts-and-deletes", nil, map[string]kit.OrdMap{"a": c08M("b", "2", "ba", "3")},
			c08Ops(opStart(), opCPut("a", "ab", "4"), opCDel("a", "b"))},
		// fixes/05: bulk child deletions outside a transaction
		{"direct-delete-child-limit-updates-root", nil, map[string]kit.OrdMap{"a": c08M("a", "1", "b", "2")},
			c08Ops(opKillL("a", 1))},
		{"direct-delete-child-limit-zero", nil, map[string]kit.OrdMap{"a": c08M("a", "1", "b", "2")},
			c08Ops(opKillL("a", 0))},
		{"direct-delete-child-limit-empties-child", c08M("b", "1"), map[string]kit.OrdMap{"a": c08M("a", "1", "b", "2")},
			c08Ops(opKillL("a", 2))},
		{"direct-clear-prefix-in-child-updates-root", nil, map[string]kit.OrdMap{"a": c08M("a", "1", "b", "2")},
			c08Ops(opCClr("a", "a"), opCClrL("a", "b", 1))},
	}
	for _, c := range cases {
		for _, v1 := range []bool{false, true} {
			c08Script(t, v1, c.main, c.children, c.ops)
			kit.Case(fmt.Sprintf("%s v1=%v", c.name, v1), true, "regression")
		}
	}
}

// TestC08RegressionEmptyPrefixTerminates: fixes/01 - collecting the backend
// keys for an empty prefix inside a transaction did not terminate
// (bytes.HasPrefix(nil, "") is true once the iterator is exhausted). The call
// takes microseconds; the watchdog only turns a hang into a failure.
func TestC08RegressionEmptyPrefixTerminates(t *testing.T) {
	defer kit.Flush()
	done := make(chan struct{})
	go func() {
		defer close(done)
		c08Script(t, false, nil, map[string]kit.OrdMap{"a": c08M("a", "1", "b", "2")},
			c08Ops(opStart(), opCClr("a", ""), opRollback(), opStart(), opCClrL("a", "", 5)))
	}()
	select {
	case <-done:
		kit.Case("empty-prefix-terminates", true, "regression")
	case <-time.After(10 * time.Second):
		t.Fatalf("ClearPrefixInChild(a, \"\") inside a transaction did not return within 10 s")
	}
}

// TestC08KnownLimitCountsMergedKeys is the witness of the known finding
// C08-limit-counts-merged-keys.
func TestC08KnownLimitCountsMergedKeys(t *testing.T) {
	defer kit.Flush()
	const id = "C08-limit-counts-merged-keys"
	tr := c08BuildTrie(t, c08M("aa", "\x01"), nil, false)
	ts := NewTrieState(tr)
	ts.StartTransaction()
	if err := ts.Put([]byte("ab"), []byte{2}); err != nil {
		t.Fatalf("Put: %v", err)
	}
	if _, _, err := ts.ClearPrefixLimit([]byte("a"), 1); err != nil {
		t.Fatalf("ClearPrefixLimit: %v", err)
	}
	// Substrate: the overlay key ab goes (overlay keys are all removed), the
	// one backend key aa is within the limit and goes too.
	aa, ab := ts.Get([]byte("aa")), ts.Get([]byte("ab"))
	switch {
	case aa == nil && ab == nil:
		kit.WitnessResult(id, false, "")
	case aa == nil && bytes.Equal(ab, []byte{2}):
		kit.WitnessResult(id, true, "state {aa}; start; Put(ab,02); ClearPrefixLimit(a,1): overlay key ab survives (Get(ab)=02), Substrate removes every overlay key with the prefix")
	default:
		t.Fatalf("witness fails differently: Get(aa)=%x Get(ab)=%x", aa, ab)
	}
}
