package storage

// Reference model of Substrate's OverlayedChanges + Ext for the operations of
// C08, written from sp-state-machine's semantics (overlayed_changes/mod.rs,
// ext.rs), sharing no code with lib/runtime/storage:
//
//   * the backend (committed state) is a main map and a map per child name;
//   * the overlay maps a key to Some(value) or None (deleted); a transaction
//     start pushes a full copy of the overlay, rollback pops it, a nested
//     commit replaces the parent's copy, the outermost commit applies the
//     overlay to the backend;
//   * reads see the overlay entry if there is one, else the backend;
//   * clear_prefix / kill_child_storage: every overlay entry with the prefix
//     that holds a value becomes None (all of them, no limit); then the
//     backend keys with the prefix are visited in lexicographic order and set
//     to None in the overlay, at most `limit` of them - the limit counts
//     visited backend keys, whether or not the overlay already deleted or
//     overwrote them (Ext::limit_remove_from_backend);
//   * a child trie exists iff it has at least one key.
//
// Without an open transaction there is no overlay: operations act on the
// backend, a limit takes the first `limit` matching keys in lexicographic order.

import (
	"sort"
	"strings"

	kit "github.com/ChainSafe/gossamer/internal/verifkit"
)

type c08OVal struct {
	v   []byte
	del bool
}

type c08Layer struct {
	main  map[string]c08OVal
	child map[string]map[string]c08OVal
}

func (l *c08Layer) clone() *c08Layer {
	n := &c08Layer{main: map[string]c08OVal{}, child: map[string]map[string]c08OVal{}}
	for k, v := range l.main {
		n.main[k] = v
	}
	for c, m := range l.child {
		cm := map[string]c08OVal{}
		for k, v := range m {
			cm[k] = v
		}
		n.child[c] = cm
	}
	return n
}

type c08Model struct {
	bMain  kit.OrdMap
	bChild map[string]kit.OrdMap
	stack  []*c08Layer
}

func newC08Model(main kit.OrdMap, children map[string]kit.OrdMap) *c08Model {
	m := &c08Model{bMain: main.Clone(), bChild: map[string]kit.OrdMap{}}
	for c, cm := range children {
		m.bChild[c] = cm.Clone()
	}
	return m
}

func (m *c08Model) depth() int { return len(m.stack) }

func (m *c08Model) top() *c08Layer {
	if len(m.stack) == 0 {
		return nil
	}
	return m.stack[len(m.stack)-1]
}

func c08View(back kit.OrdMap, ov map[string]c08OVal) kit.OrdMap {
	out := kit.OrdMap{}
	for k, v := range back {
		out[k] = v
	}
	for k, o := range ov {
		if o.del {
			delete(out, k)
		} else {
			out[k] = o.v
		}
	}
	return out
}

func (m *c08Model) mainView() kit.OrdMap {
	if t := m.top(); t != nil {
		return c08View(m.bMain, t.main)
	}
	return c08View(m.bMain, nil)
}

func (m *c08Model) childView(c string) kit.OrdMap {
	if t := m.top(); t != nil {
		return c08View(m.bChild[c], t.child[c])
	}
	return c08View(m.bChild[c], nil)
}

func (m *c08Model) childOv(c string) map[string]c08OVal {
	t := m.top()
	if t.child[c] == nil {
		t.child[c] = map[string]c08OVal{}
	}
	return t.child[c]
}

func (m *c08Model) backChild(c string) kit.OrdMap {
	if m.bChild[c] == nil {
		m.bChild[c] = kit.OrdMap{}
	}
	return m.bChild[c]
}

func (m *c08Model) dropEmptyChildren() {
	for c, cm := range m.bChild {
		if len(cm) == 0 {
			delete(m.bChild, c)
		}
	}
}

func (m *c08Model) put(k string, v []byte) {
	if t := m.top(); t != nil {
		t.main[k] = c08OVal{v: v}
		return
	}
	m.bMain[k] = v
}

func (m *c08Model) del(k string) {
	if t := m.top(); t != nil {
		t.main[k] = c08OVal{del: true}
		return
	}
	delete(m.bMain, k)
}

func (m *c08Model) cput(c, k string, v []byte) {
	if m.top() != nil {
		m.childOv(c)[k] = c08OVal{v: v}
		return
	}
	m.backChild(c)[k] = v
}

func (m *c08Model) cdel(c, k string) {
	if m.top() != nil {
		m.childOv(c)[k] = c08OVal{del: true}
		return
	}
	delete(m.backChild(c), k)
	m.dropEmptyChildren()
}

// c08Clear is clear_prefix / kill with an optional limit (-1 = none) on one
// key space; ov == nil means no transaction is open.
func c08Clear(back kit.OrdMap, ov map[string]c08OVal, p string, limit int) {
	if ov == nil {
		for i, k := range back.WithPrefix([]byte(p)) {
			if limit >= 0 && i == limit {
				break
			}
			delete(back, k)
		}
		return
	}
	for k, o := range ov {
		if !o.del && strings.HasPrefix(k, p) {
			ov[k] = c08OVal{del: true}
		}
	}
	for i, k := range back.WithPrefix([]byte(p)) {
		if limit >= 0 && i == limit {
			break
		}
		ov[k] = c08OVal{del: true}
	}
}

func (m *c08Model) clearPrefix(p string, limit int) {
	if t := m.top(); t != nil {
		c08Clear(m.bMain, t.main, p, limit)
		return
	}
	c08Clear(m.bMain, nil, p, limit)
}

func (m *c08Model) cclearPrefix(c, p string, limit int) {
	if m.top() != nil {
		c08Clear(m.bChild[c], m.childOv(c), p, limit)
		return
	}
	c08Clear(m.backChild(c), nil, p, limit)
	m.dropEmptyChildren()
}

// limitShape describes a limited clear about to run inside a transaction: the
// number of overlay entries with the prefix that hold a value, and the number
// of backend keys with the prefix.
func (m *c08Model) limitShape(mainSpace bool, c, p string) (ovVal, backend int) {
	t := m.top()
	back, ov := m.bMain, t.main
	if !mainSpace {
		back, ov = m.bChild[c], t.child[c]
	}
	for k, o := range ov {
		if !o.del && strings.HasPrefix(k, p) {
			ovVal++
		}
	}
	return ovVal, len(back.WithPrefix([]byte(p)))
}

func (m *c08Model) start() {
	if t := m.top(); t != nil {
		m.stack = append(m.stack, t.clone())
		return
	}
	m.stack = append(m.stack, &c08Layer{main: map[string]c08OVal{}, child: map[string]map[string]c08OVal{}})
}

func (m *c08Model) rollback() { m.stack = m.stack[:len(m.stack)-1] }

func (m *c08Model) commit() {
	t := m.top()
	m.stack = m.stack[:len(m.stack)-1]
	if len(m.stack) > 0 {
		m.stack[len(m.stack)-1] = t
		return
	}
	for k, o := range t.main {
		if o.del {
			delete(m.bMain, k)
		} else {
			m.bMain[k] = o.v
		}
	}
	for c, ov := range t.child {
		back := m.backChild(c)
		for k, o := range ov {
			if o.del {
				delete(back, k)
			} else {
				back[k] = o.v
			}
		}
	}
	m.dropEmptyChildren()
}

// --- c08Reader ---------------------------------------------------------------

func (m *c08Model) get(k string) []byte {
	v, ok := m.mainView()[k]
	if !ok {
		return nil
	}
	if v == nil {
		return []byte{}
	}
	return v
}

func c08Next(view kit.OrdMap, k string) (string, bool) {
	ks := view.Keys()
	i := sort.SearchStrings(ks, k)
	if i < len(ks) && ks[i] == k {
		i++
	}
	if i < len(ks) {
		return ks[i], true
	}
	return "", false
}

func (m *c08Model) next(k string) (string, bool) { return c08Next(m.mainView(), k) }

func (m *c08Model) entries() map[string][]byte {
	out := map[string][]byte{}
	for k, v := range m.mainView() {
		if v == nil {
			v = []byte{}
		}
		out[k] = v
	}
	return out
}

func (m *c08Model) cget(c, k string) []byte {
	v, ok := m.childView(c)[k]
	if !ok {
		return nil
	}
	if v == nil {
		return []byte{}
	}
	return v
}

func (m *c08Model) cnext(c, k string) (string, bool) { return c08Next(m.childView(c), k) }

func (m *c08Model) ckeys(c, p string) []string {
	out := m.childView(c).WithPrefix([]byte(p))
	if out == nil {
		out = []string{}
	}
	return out
}
