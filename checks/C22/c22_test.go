package grandpa

// C22 - GRANDPA finality is safe under a Byzantine minority.
//
// The harness owns the schedule: no goroutine and no timer of the service
// runs. n in 4..7 voters, f < n/3 of them Byzantine. Every honest voter is a
// real Service (NewService over the fakes of ../C18/fakes_test.go) with its
// own block state (own finalised head, own best block) over a shared block
// tree. Every protocol step of an honest voter is a call into the
// implementation, in the order of finalisation.go (c22Sim.step is the glue,
// documented line by line in NOTES.md); every message an honest voter emits is
// taken from its fake network (what the implementation gossiped) and is
// delivered through Service.handleNetworkMessage, the real network entry
// point. Byzantine voters need no Service: they sign whatever the schedule
// asks for.
//
// Oracle (the property statement): the blocks passed to SetFinalisedHash by
// all honest voters, over all rounds, are pairwise comparable by ancestry on
// the harness tree model.
//
// Layer 2 (TestC22QuorumIntersection): from one pool of precommits in which
// every honest voter signed at most one, no two commits for conflicting
// blocks are both accepted by handleCommitMessage of fresh honest services.

import (
	"fmt"
	"sort"
	"strings"
	"sync"
	"testing"
	"time"

	"github.com/ChainSafe/gossamer/dot/types"
	kit "github.com/ChainSafe/gossamer/internal/verifkit"
	"github.com/ChainSafe/gossamer/lib/common"
	"github.com/ChainSafe/gossamer/lib/crypto/ed25519"
	"github.com/libp2p/go-libp2p/core/peer"
	"pgregory.net/rapid"
)

const c22Finding = "C22-no-round-estimate"
const c22MaxRounds = 3

type c22Phase int

const (
	c22Init c22Phase = iota
	c22Prevote
	c22Precommit
	c22Finalize
	c22Done
	c22Crashed
)

type c22Voter struct {
	key   int
	env   *vEnv // nil for a Byzantine voter
	hook  *c22HookBS
	phase c22Phase
	next  int   // sync cursor into the pool
	nfin  int   // SetFinalisedHash calls already judged
	held  []int // pool messages withheld from this voter by the partition, delivered when it heals
	crash string
}

// c22Msg is one message on the (harness-owned) network.
type c22Msg struct {
	wire  *ConsensusMessage
	descr string
	from  int
	mask  uint32 // voters (by key) that sync delivers it to
	// decoded once, for the choice of the message of a split delivery
	isVote bool
	round  uint64
	author int // key of the authority id of a vote message, -1 if none of the voters
}

// c22Sig is a precommit signature that exists on the network.
type c22Sig struct {
	key   int
	round uint64
	blk   int
	sig   [64]byte
}

type c22Final struct {
	voter int
	blk   int
	round uint64
}

type c22Sim struct {
	n      int
	tree   *vTree
	voters []*c22Voter // by key
	honest []int
	byz    []int
	pool   []c22Msg
	sigs   []c22Sig
	hpc    map[uint64]map[int]int // round -> honest key -> precommitted block
	byzV   map[string]int         // "key/stage/round" -> first block signed (equivocation detection)
	finals []c22Final
	gate   bool // steer around the known finding
	// partition: while voter isoVictim has not left round isoRound, sync exchanges no
	// message between it and the other honest voters (they are held back, not lost)
	isoVictim int
	isoRound  uint64
	log       []string
	labels    map[string]bool

	equivocation bool
	dropped      bool
	excluded     int
	violation    string

	sigOK  map[c22TallyKey]bool // cache of the tally check (signature verifications)
	splits int                  // split deliveries whose pause point was reached
}

func c22Children(tree *vTree, b int) []int {
	var out []int
	for i := b + 1; i < tree.size(); i++ {
		if tree.parent[i] == b {
			out = append(out, i)
		}
	}
	return out
}

// c22Deepest returns the lowest-index deepest block of the subtree of r.
func c22Deepest(tree *vTree, r int) int {
	best := r
	for _, b := range tree.subtree(r) {
		if tree.number[b] > tree.number[best] {
			best = b
		}
	}
	return best
}

func newC22Sim(n int, byz []int, parent []int, bests map[int]int, gate bool) (*c22Sim, error) {
	sim := &c22Sim{n: n, tree: newVTree(parent), gate: gate, hpc: map[uint64]map[int]int{},
		byzV: map[string]int{}, labels: map[string]bool{}, isoVictim: -1, sigOK: map[c22TallyKey]bool{}}
	isByz := map[int]bool{}
	for _, b := range byz {
		isByz[b] = true
	}
	keys := make([]int, n)
	for i := range keys {
		keys[i] = i
	}
	for k := 0; k < n; k++ {
		v := &c22Voter{key: k}
		if isByz[k] {
			sim.byz = append(sim.byz, k)
		} else {
			sim.honest = append(sim.honest, k)
			bs := newVBlockState(sim.tree, 0, 0, 0, bests[k])
			env, err := vNewService(bs, keys, k, 0)
			if err != nil {
				return nil, err
			}
			v.env = env
			// the service talks to its block state through a wrapper in which the harness can
			// hold one call (split delivery); without an armed pause it is transparent
			v.hook = &c22HookBS{vBlockState: bs}
			env.svc.blockState = v.hook
			env.svc.messageHandler.blockState = v.hook
		}
		sim.voters = append(sim.voters, v)
	}
	return sim, nil
}

func (sim *c22Sim) logf(f string, a ...any) { sim.log = append(sim.log, fmt.Sprintf(f, a...)) }

func (sim *c22Sim) allMask() uint32 { return 1<<uint(sim.n) - 1 }

func (sim *c22Sim) blkOf(v Vote) int {
	if i, ok := sim.tree.index[v.Hash]; ok {
		return i
	}
	return -1
}

func (sim *c22Sim) describeWire(cm *ConsensusMessage) string {
	m, err := decodeMessage(cm)
	if err != nil {
		return "undecodable"
	}
	switch x := m.(type) {
	case *VoteMessage:
		k := -1
		for i := 0; i < sim.n; i++ {
			if vPub(i) == x.Message.AuthorityID {
				k = i
			}
		}
		st := map[Subround]string{prevote: "pv", precommit: "pc", primaryProposal: "pp"}[x.Message.Stage]
		return fmt.Sprintf("%s:k%d:r%d:b%d", st, k, x.Round, sim.blkOf(Vote{Hash: x.Message.BlockHash}))
	case *CommitMessage:
		return fmt.Sprintf("commit:r%d:b%d:%dpc", x.Round, sim.blkOf(x.Vote), len(x.Precommits))
	}
	return fmt.Sprintf("%T", m)
}

// harvest moves what the implementation handed to its network into the pool.
func (sim *c22Sim) harvest(v *c22Voter) {
	v.env.net.mu.Lock()
	sent := v.env.net.sent
	v.env.net.sent = nil
	v.env.net.mu.Unlock()
	for _, s := range sent {
		cm, ok := s.msg.(*ConsensusMessage)
		if !ok {
			continue
		}
		sim.addMsg(cm, v.key, sim.allMask()&^(1<<uint(v.key)))
	}
}

// addMsg puts a wire message on the harness-owned network.
func (sim *c22Sim) addMsg(cm *ConsensusMessage, from int, mask uint32) int {
	m := c22Msg{wire: cm, descr: sim.describeWire(cm), from: from, mask: mask, author: -1}
	if d, err := decodeMessage(cm); err == nil {
		if vm, ok := d.(*VoteMessage); ok {
			m.isVote, m.round = true, vm.Round
			for i := 0; i < sim.n; i++ {
				if vPub(i) == vm.Message.AuthorityID {
					m.author = i
				}
			}
		}
	}
	sim.pool = append(sim.pool, m)
	return len(sim.pool) - 1
}

// judge looks at new SetFinalisedHash calls of v: the oracle.
func (sim *c22Sim) judge(v *c22Voter) {
	calls := v.env.bs.finalCalls()
	for ; v.nfin < len(calls); v.nfin++ {
		c := calls[v.nfin]
		b, ok := sim.tree.index[c.hash]
		if !ok {
			sim.fail("voter k%d finalised an unknown block %s in round %d", v.key, c.hash, c.round)
			return
		}
		for _, f := range sim.finals {
			if !sim.tree.isAncestorOrEqual(f.blk, b) && !sim.tree.isAncestorOrEqual(b, f.blk) {
				sim.fail("voter k%d finalised b%d in round %d, voter k%d finalised b%d in round %d: different forks",
					v.key, b, c.round, f.voter, f.blk, f.round)
			}
		}
		sim.finals = append(sim.finals, c22Final{v.key, b, c.round})
		sim.logf("  => k%d finalised b%d r%d", v.key, b, c.round)
	}
	sim.checkTally(v)
	// environment: the best block of a node is always on its finalised chain
	bs := v.env.bs
	bs.mu.Lock()
	if !sim.tree.isAncestorOrEqual(bs.finalHead, bs.best) {
		bs.best = c22Deepest(sim.tree, bs.finalHead)
	}
	bs.mu.Unlock()
}

func (sim *c22Sim) fail(f string, a ...any) {
	if sim.violation == "" {
		sim.violation = fmt.Sprintf(f, a...)
	}
}

func (sim *c22Sim) deliver(v *c22Voter, mi int) {
	if v.phase == c22Crashed {
		return
	}
	_, _ = v.env.svc.handleNetworkMessage(peer.ID(fmt.Sprintf("p%d", sim.pool[mi].from)), sim.pool[mi].wire)
	sim.harvest(v)
	sim.judge(v)
}

// ---------------------------------------------------------------------------
// split deliveries: a message delivery that is held inside a block-state call
// while another goroutine performs another action of the same voter.
//
// In the service the network handler goroutines (handleNetworkMessage) and the
// round handler goroutine (finalisation.go) run concurrently; the atomic events
// of the schedule never exercise that. A split delivery does: the delivery runs
// on a goroutine of its own and is held in the first call of one block-state
// method (HasHeader / GetHeader / IsDescendantOf, drawn) - for a vote message
// that is inside validateVote, after the message was checked against the
// voter's round and before the vote is recorded - while a second goroutine
// performs the voter's next protocol step (or another delivery). If the
// implementation makes the second action wait for the delivery (round lock), it
// simply blocks until the harness releases the held call after a grace period:
// the grace period bounds the wait and never decides a verdict.

// c22Grace: how long the held call waits for a concurrent action that takes the round lock
// (initiateRound, another vote delivery), counted from the moment that action runs;
// c22LongGrace for actions that take no lock of the delivery in the unchanged code (they
// return at once; the long bound only keeps the order of the two reproducible on a busy machine).
const c22Grace = 10 * time.Millisecond
const c22LongGrace = 2 * time.Second
const c22Watchdog = 120 * time.Second

var c22PausePoints = []string{"HasHeader", "GetHeader", "IsDescendantOf"}

type c22Pause struct {
	fn      string
	mu      sync.Mutex
	hit     bool
	reached chan struct{}
	release chan struct{}
}

// c22HookBS is the block state a voter's Service talks to: the harness fake,
// with the possibility to hold the first call of one method.
type c22HookBS struct {
	*vBlockState
	hmu   sync.Mutex
	armed *c22Pause
}

func (h *c22HookBS) arm(p *c22Pause) { h.hmu.Lock(); h.armed = p; h.hmu.Unlock() }

func (h *c22HookBS) at(fn string) {
	h.hmu.Lock()
	p := h.armed
	h.hmu.Unlock()
	if p == nil || p.fn != fn {
		return
	}
	p.mu.Lock()
	first := !p.hit
	p.hit = true
	p.mu.Unlock()
	if first {
		close(p.reached)
		<-p.release
	}
}

func (h *c22HookBS) HasHeader(hash common.Hash) (bool, error) {
	h.at("HasHeader")
	return h.vBlockState.HasHeader(hash)
}

func (h *c22HookBS) GetHeader(hash common.Hash) (*types.Header, error) {
	h.at("GetHeader")
	return h.vBlockState.GetHeader(hash)
}

func (h *c22HookBS) IsDescendantOf(parent, child common.Hash) (bool, error) {
	h.at("IsDescendantOf")
	return h.vBlockState.IsDescendantOf(parent, child)
}

// split delivers pool message mi to v, holds the delivery in its first call of
// block-state method fn and runs second meanwhile on another goroutine; the held
// call is released when second has returned or after c22Grace (second waits for
// a lock of the delivery). Both are joined before anything is judged. If the
// delivery never calls fn, second simply runs after it.
func (sim *c22Sim) split(v *c22Voter, mi int, fn string, wait time.Duration, second func()) (reached, blocked bool) {
	if v.phase == c22Crashed {
		return false, false
	}
	p := &c22Pause{fn: fn, reached: make(chan struct{}), release: make(chan struct{})}
	v.hook.arm(p)
	from := peer.ID(fmt.Sprintf("p%d", sim.pool[mi].from))
	wire := sim.pool[mi].wire
	var panicD, panicS any
	doneD := make(chan struct{})
	go func() {
		defer close(doneD)
		defer func() { panicD = recover() }()
		_, _ = v.env.svc.handleNetworkMessage(from, wire)
	}()
	select {
	case <-p.reached:
		reached = true
	case <-doneD:
	}
	if !reached {
		v.hook.arm(nil)
		if panicD != nil {
			panic(panicD)
		}
		second()
		sim.harvest(v)
		sim.judge(v)
		return false, false
	}
	doneS, startedS := make(chan struct{}), make(chan struct{})
	go func() {
		defer close(doneS)
		defer func() { panicS = recover() }()
		close(startedS)
		second()
	}()
	<-startedS
	grace := time.NewTimer(wait)
	select {
	case <-doneS:
	case <-grace.C:
		blocked = true
	}
	grace.Stop()
	close(p.release)
	wd := time.NewTimer(c22Watchdog)
	defer wd.Stop()
	for _, ch := range []chan struct{}{doneD, doneS} {
		select {
		case <-ch:
		case <-wd.C:
			sim.fail("voter k%d: a delivery held in %s and a concurrent action did not both return within %s (deadlock)", v.key, fn, c22Watchdog)
			return reached, blocked
		}
	}
	v.hook.arm(nil)
	if panicD != nil {
		panic(panicD)
	}
	if panicS != nil {
		panic(panicS)
	}
	sim.splits++
	sim.harvest(v)
	sim.judge(v)
	return reached, blocked
}

// ---------------------------------------------------------------------------
// tally check (second oracle): whatever a voter counts in its current round -
// the pre-votes and pre-commits it recorded, including the votes kept for
// equivocators - carries a signature of its authority id over (stage, block,
// the voter's current round, its set id). A vote signed for another round that
// is counted in this round is a vote nobody cast: counting it voids the
// "honest voters hold more than two thirds" premise of the statement. The
// payload is encoded by hand (vFullVotePayload), the verification is cached.

type c22TallyKey struct {
	sig   [64]byte
	auth  ed25519.PublicKeyBytes
	vote  Vote
	round uint64
	setID uint64
	pv    bool
}

func (sim *c22Sim) signedFor(sv *SignedVote, pv bool, round, setID uint64) bool {
	key := c22TallyKey{sv.Signature, sv.AuthorityID, sv.Vote, round, setID, pv}
	if ok, seen := sim.sigOK[key]; seen {
		return ok
	}
	ok := false
	stages := []Subround{precommit}
	if pv {
		stages = []Subround{prevote, primaryProposal}
	}
	if pk, err := ed25519.NewPublicKey(sv.AuthorityID[:]); err == nil {
		for _, st := range stages {
			if good, err := pk.Verify(vFullVotePayload(st, sv.Vote, round, setID), sv.Signature[:]); err == nil && good {
				ok = true
				break
			}
		}
	}
	sim.sigOK[key] = ok
	return ok
}

func (sim *c22Sim) checkTally(v *c22Voter) {
	if v.phase == c22Crashed || sim.violation != "" {
		return
	}
	s := v.env.svc
	round, setID := s.state.round, s.state.setID
	var bad []string
	one := func(sv *SignedVote, pv bool, what string) {
		if sim.signedFor(sv, pv, round, setID) {
			return
		}
		who := -1
		for i := 0; i < sim.n; i++ {
			if vPub(i) == sv.AuthorityID {
				who = i
			}
		}
		bad = append(bad, fmt.Sprintf("voter k%d counts in round %d (set %d) a %s of k%d for b%d that is not signed for that round and set",
			v.key, round, setID, what, who, sim.blkOf(sv.Vote)))
	}
	s.prevotes.Range(func(_, x any) bool { one(x.(*SignedVote), true, "pre-vote"); return true })
	s.precommits.Range(func(_, x any) bool { one(x.(*SignedVote), false, "pre-commit"); return true })
	s.mapLock.Lock()
	for _, l := range s.pvEquivocations {
		for _, sv := range l {
			one(sv, true, "equivocatory pre-vote")
		}
	}
	for _, l := range s.pcEquivocations {
		for _, sv := range l {
			one(sv, false, "equivocatory pre-commit")
		}
	}
	s.mapLock.Unlock()
	if len(bad) > 0 {
		sort.Strings(bad)
		sim.fail("%s", bad[0])
	}
}

func (sim *c22Sim) crashed(v *c22Voter, why string, err error) {
	v.phase = c22Crashed
	v.crash = fmt.Sprintf("%s: %v", why, err)
	sim.labels["voter-stopped:"+why] = true
	sim.logf("  k%d stopped: %s", v.key, v.crash)
}

// finalisable reports whether block x can still gather (or has gathered) more
// than 2/3 of the precommits of round r, whatever the Byzantine voters do:
// honest precommits of round r on x or a descendant + honest voters that may
// still precommit in round r + all Byzantine voters.
func (sim *c22Sim) finalisable(r uint64, x int) bool {
	cnt := len(sim.byz)
	for _, h := range sim.honest {
		if b, ok := sim.hpc[r][h]; ok {
			if sim.tree.isAncestorOrEqual(x, b) {
				cnt++
			}
			continue
		}
		hv := sim.voters[h]
		if hv.phase != c22Crashed && hv.phase != c22Done && hv.env.svc.state.round <= r {
			cnt++
		}
	}
	return 3*cnt > 2*sim.n
}

// steerAway implements the trigger of the known finding: voter v is about to
// sign a vote for blk in its current round although blk is on another fork
// than a block that can still be finalised in an earlier round.
func (sim *c22Sim) steerAway(v *c22Voter, blk int) bool {
	if blk < 0 {
		return false
	}
	cur := v.env.svc.state.round
	for r := uint64(1); r < cur; r++ {
		for x := 0; x < sim.tree.size(); x++ {
			if !sim.tree.isAncestorOrEqual(x, blk) && !sim.tree.isAncestorOrEqual(blk, x) && sim.finalisable(r, x) {
				return true
			}
		}
	}
	return false
}

func (sim *c22Sim) excludedStep(v *c22Voter, what string, blk int) bool {
	if !sim.steerAway(v, blk) {
		return false
	}
	sim.labels["known-trigger-reached"] = true
	if !sim.gate {
		return false
	}
	sim.excluded++
	kit.Excluded(c22Finding)
	sim.logf("  k%d %s for b%d withheld (known finding)", v.key, what, blk)
	return true
}

// step: honest voter v performs its next protocol step. This is the glue that
// replaces finalisationHandler.run / finalisationEngine / votingRoundHandler;
// see NOTES.md for the line-by-line correspondence.
func (sim *c22Sim) step(v *c22Voter) {
	if v.env == nil || v.phase == c22Crashed || v.phase == c22Done {
		return
	}
	s := v.env.svc
	defer func() { sim.harvest(v); sim.judge(v) }()

	completable := func() (bool, bool) {
		c, err := s.checkRoundCompletable()
		if err != nil {
			sim.crashed(v, "checkRoundCompletable", err)
			return false, false
		}
		if c {
			v.phase = c22Init // action alreadyFinalized: Run returns nil, fh.run loops
			sim.logf("  k%d round %d already finalised", v.key, s.state.round)
		}
		return c, true
	}

	switch v.phase {
	case c22Init:
		if hr, _ := v.env.bs.GetRoundAndSetID(); hr >= c22MaxRounds || s.state.round >= c22MaxRounds {
			v.phase = c22Done // harness bound: at most c22MaxRounds rounds
			return
		}
		if err := s.initiateRound(); err != nil {
			sim.crashed(v, "initiateRound", err)
			return
		}
		v.phase = c22Prevote
		sim.logf("  k%d starts round %d head b%d", v.key, s.state.round, sim.blkOf(*NewVoteFromHeader(s.head)))

	case c22Prevote:
		if c, ok := completable(); c || !ok {
			return
		}
		// what will be signed: the primary proposes its best block, every voter pre-votes determinePreVote()
		peek, err := s.determinePreVote()
		if err != nil {
			sim.crashed(v, "determinePreVote", err)
			return
		}
		if sim.excludedStep(v, "pre-vote", sim.blkOf(*peek)) {
			return
		}
		if primary := s.derivePrimary(); primary.PublicKeyBytes() == s.publicKeyBytes() {
			if sim.excludedStep(v, "primary proposal", v.env.bs.best) {
				return
			}
		}
		isPrimary, err := s.handleIsPrimary()
		if err != nil {
			sim.crashed(v, "handleIsPrimary", err)
			return
		}
		pv, err := s.determinePreVote()
		if err != nil {
			sim.crashed(v, "determinePreVote", err)
			return
		}
		spv, vm, err := s.createSignedVoteAndVoteMessage(pv, prevote)
		if err != nil {
			sim.crashed(v, "createSignedVote", err)
			return
		}
		if !isPrimary {
			s.prevotes.Store(s.publicKeyBytes(), spv)
		}
		if err := s.sendPrevoteMessage(vm); err != nil {
			sim.crashed(v, "sendPrevoteMessage", err)
			return
		}
		v.phase = c22Precommit
		sim.logf("  k%d pre-votes b%d r%d primary=%v", v.key, sim.blkOf(*pv), s.state.round, isPrimary)

	case c22Precommit:
		if c, ok := completable(); c || !ok {
			return
		}
		ghost, err := s.getPreVotedBlock()
		if err != nil {
			sim.crashed(v, "getPreVotedBlock", err)
			return
		}
		total, err := s.getTotalVotesForBlock(ghost.Hash, prevote)
		if err != nil {
			sim.crashed(v, "getTotalVotesForBlock", err)
			return
		}
		if total <= s.state.threshold() {
			return // determinePrecommitTimer.Reset: try again later
		}
		isDesc, err := s.blockState.IsDescendantOf(s.head.Hash(), ghost.Hash)
		if err != nil {
			sim.crashed(v, "IsDescendantOf", err)
			return
		}
		if !isDesc {
			sim.crashed(v, "panic", fmt.Errorf("block with supermajority does not belong to the latest finalized block chain"))
			return
		}
		pc, err := s.determinePreCommit()
		if err != nil {
			sim.crashed(v, "determinePreCommit", err)
			return
		}
		if sim.excludedStep(v, "pre-commit", sim.blkOf(*pc)) {
			return
		}
		spc, pcm, err := s.createSignedVoteAndVoteMessage(pc, precommit)
		if err != nil {
			sim.crashed(v, "createSignedVote", err)
			return
		}
		s.precommits.Store(s.publicKeyBytes(), spc)
		_ = s.sendPrecommitMessage(pcm) // finalisation.go only logs this error
		v.phase = c22Finalize
		blk := sim.blkOf(*pc)
		if sim.hpc[s.state.round] == nil {
			sim.hpc[s.state.round] = map[int]int{}
		}
		if _, twice := sim.hpc[s.state.round][v.key]; twice {
			sim.fail("harness: honest voter k%d signs a second pre-commit in round %d", v.key, s.state.round)
		}
		sim.hpc[s.state.round][v.key] = blk
		sim.sigs = append(sim.sigs, c22Sig{v.key, s.state.round, blk, spc.Signature})
		sim.logf("  k%d pre-commits b%d r%d", v.key, blk, s.state.round)

	case c22Finalize:
		if c, ok := completable(); c || !ok {
			return
		}
		fin, err := s.attemptToFinalize()
		if err != nil {
			sim.crashed(v, "attemptToFinalize", err)
			return
		}
		if !fin {
			return // attemptfinalisationTicker: try again later
		}
		cm, err := s.newCommitMessage(s.head, s.state.round, s.state.setID)
		if err != nil {
			sim.crashed(v, "newCommitMessage", err)
			return
		}
		ccm, err := cm.ToConsensusMessage()
		if err != nil {
			sim.crashed(v, "ToConsensusMessage", err)
			return
		}
		s.network.GossipMessage(ccm)
		v.phase = c22Init
	}
}

// sync delivers to v every pool message addressed to it that sync has not
// looked at yet; drop(i) decides that message i is lost for v.
func (sim *c22Sim) sync(v *c22Voter, drop func(i int) bool) {
	parted := sim.partitioned()
	if !parted && len(v.held) > 0 {
		held := v.held
		v.held = nil
		for _, mi := range held {
			sim.deliver(v, mi)
		}
	}
	end := len(sim.pool) // messages produced while syncing wait for the next sync
	for ; v.next < end; v.next++ {
		m := sim.pool[v.next]
		if m.mask&(1<<uint(v.key)) == 0 {
			continue
		}
		if parted && sim.voters[m.from].env != nil && (v.key == sim.isoVictim) != (m.from == sim.isoVictim) {
			v.held = append(v.held, v.next)
			sim.labels["partition-held-message"] = true
			continue
		}
		if drop != nil && drop(v.next) {
			sim.dropped = true
			continue
		}
		sim.deliver(v, v.next)
	}
}

// partitioned: the isolated voter is still in (or before) the round of the partition.
func (sim *c22Sim) partitioned() bool {
	if sim.isoVictim < 0 {
		return false
	}
	v := sim.voters[sim.isoVictim]
	return v.phase != c22Done && v.phase != c22Crashed && v.env.svc.state.round <= sim.isoRound
}

// barrage: Byzantine voter b sends the votes seq (conflicting blocks, one round, one
// stage) to the single honest voter v, one after the other.
func (sim *c22Sim) barrage(b int, v *c22Voter, stage Subround, round uint64, seq []int) {
	sim.logf("barrage k%d -> k%d: %s r%d blocks %v", b, v.key, stage, round, seq)
	for _, blk := range seq {
		sim.deliver(v, sim.byzVote(b, stage, blk, round, 1<<uint(v.key), b))
	}
}

// byzVote: Byzantine voter b signs a vote; claim != b forges the authority id
// of another voter (signature by b: invalid).
func (sim *c22Sim) byzVote(b int, stage Subround, blk int, round uint64, mask uint32, claim int) int {
	vote := sim.tree.vote(blk)
	sig := vSignVote(b, stage, vote, round, 0)
	vm := vVoteMessage(claim, stage, vote, round, 0, sig)
	cm, err := vm.ToConsensusMessage()
	if err != nil {
		panic(err)
	}
	if claim == b {
		st := stage
		if st == primaryProposal {
			st = prevote
		}
		k := fmt.Sprintf("%d/%d/%d", b, st, round)
		if first, ok := sim.byzV[k]; ok && first != blk {
			sim.equivocation = true
		} else if !ok {
			sim.byzV[k] = blk
		}
		if stage == precommit {
			sim.sigs = append(sim.sigs, c22Sig{b, round, blk, sig})
		}
	}
	return sim.addMsg(cm, b, mask)
}

type c22Entry struct {
	key int
	blk int
	sig [64]byte
}

func (sim *c22Sim) byzCommit(b int, round uint64, target int, entries []c22Entry, mask uint32) int {
	cmsg := &CommitMessage{Round: round, SetID: 0, Vote: sim.tree.vote(target)}
	for _, e := range entries {
		cmsg.Precommits = append(cmsg.Precommits, sim.tree.vote(e.blk))
		cmsg.AuthData = append(cmsg.AuthData, AuthData{Signature: e.sig, AuthorityID: vPub(e.key)})
	}
	cm, err := cmsg.ToConsensusMessage()
	if err != nil {
		panic(err)
	}
	return sim.addMsg(cm, b, mask)
}

func (sim *c22Sim) maxRound() uint64 {
	r := uint64(1)
	for _, h := range sim.honest {
		if x := sim.voters[h].env.svc.state.round; x > r {
			r = x
		}
	}
	if r > c22MaxRounds {
		r = c22MaxRounds
	}
	return r
}

func (sim *c22Sim) header() string {
	bests := make([]string, 0, len(sim.honest))
	for _, h := range sim.honest {
		bests = append(bests, fmt.Sprintf("k%d:b%d", h, sim.voters[h].env.bs.best))
	}
	return fmt.Sprintf("n=%d byz=%v tree=%s best=[%s]", sim.n, sim.byz, sim.tree.describe(), strings.Join(bests, " "))
}

// ---------------------------------------------------------------------------
// the rapid property: a drawn schedule

const c22Rule = "n in 4..7 voters (real ed25519 keys), f <= floor((n-1)/3) Byzantine, tree of 3-9 blocks with forks, per honest voter a real Service with its own block state and best block; " +
	"schedule of 20-200 rapid-drawn events: honest voter performs its next step (initiateRound / pre-vote / pre-commit when a pre-vote supermajority is seen / attemptToFinalize+commit, as finalisation.go), " +
	"sync (deliver all new messages to one voter, optionally lossy), deliver or duplicate one message of any age, Byzantine vote (any stage/block/round, to any subset, also with a forged authority id), " +
	"Byzantine commit (any target/round, any subset of the pre-commit signatures on the network + fresh own ones + forged / duplicated entries, to any subset), Byzantine storm (votes for each voter's own best block, optionally forged ones for all others), Byzantine barrage (3-8 conflicting votes of one round and stage to one honest voter), best-block change, tick (all step + all sync); optional partition of one honest voter from the other honest voters for one round; at most 3 rounds. " +
	"An eighth of the schedules is interleaved: one event in twenty is a split delivery - a message (mostly a current-round vote of another voter) is delivered to a voter (mostly one that knows its round is finalised and has not started the next) on a goroutine of its own, held inside a drawn block-state call (HasHeader / GetHeader / IsDescendantOf, i.e. inside the validation) while a second goroutine performs the voter's next step (5/6) or another delivery (1/6), then released (after the second action returned, or after a bounded grace period if it waits for a lock of the delivery); both are joined before judging. " +
	"Oracle: all SetFinalisedHash blocks of all honest voters pairwise on one chain; and every pre-vote / pre-commit (incl. equivocatory ones) a voter counts in its current round is signed by its authority for that round and set (hand-encoded payload). Non-trivial = a non-genesis block was finalised and a Byzantine equivocation or a lost message occurred; distinct by (n, Byzantine set, tree, best blocks, event list)."

func c22Subset(t *rapid.T, sim *c22Sim, label string) uint32 {
	if rapid.IntRange(0, 2).Draw(t, label+"All") == 0 {
		return sim.allMask()
	}
	var m uint32
	bits := rapid.Uint32Range(1, 1<<uint(len(sim.honest))-1).Draw(t, label)
	for i, h := range sim.honest {
		if bits&(1<<uint(i)) != 0 {
			m |= 1 << uint(h)
		}
	}
	return m
}

func c22Schedule(t *rapid.T, gate bool) *c22Sim {
	n := rapid.SampledFrom([]int{4, 4, 5, 6, 7, 7}).Draw(t, "n")
	fmax := (n - 1) / 3
	f := fmax
	if rapid.IntRange(0, 7).Draw(t, "fewerByz") == 0 {
		f = rapid.IntRange(0, fmax).Draw(t, "f")
	}
	var byz []int
	for len(byz) < f {
		k := rapid.IntRange(0, n-1).Draw(t, "byzKey")
		dup := false
		for _, b := range byz {
			dup = dup || b == k
		}
		if !dup {
			byz = append(byz, k)
		}
	}
	sort.Ints(byz)
	tree := vGenTree(t, 3, 9)
	var leaves []int
	for b := 0; b < tree.size(); b++ {
		if len(c22Children(tree, b)) == 0 {
			leaves = append(leaves, b)
		}
	}
	bests := map[int]int{}
	common := leaves[rapid.IntRange(0, len(leaves)-1).Draw(t, "commonBest")]
	split := rapid.IntRange(0, 2).Draw(t, "splitBest")
	for k := 0; k < n; k++ {
		bests[k] = common
		if split > 0 && rapid.IntRange(0, 3).Draw(t, "ownBest") < split {
			bests[k] = leaves[rapid.IntRange(0, len(leaves)-1).Draw(t, "best")]
		}
	}
	// a third of the schedules with a Byzantine voter: one honest voter is cut off from the other
	// honest voters for one round (the Byzantine voters reach everybody) and prefers another leaf
	iso, isoVictim := false, -1
	if f > 0 && rapid.IntRange(0, 2).Draw(t, "isolate") == 0 {
		iso = true
		for {
			isoVictim = rapid.IntRange(0, n-1).Draw(t, "victim")
			isByz := false
			for _, b := range byz {
				isByz = isByz || b == isoVictim
			}
			if !isByz {
				break
			}
		}
		if rapid.IntRange(0, 3).Draw(t, "victimOwnBest") > 0 {
			bests[isoVictim] = leaves[rapid.IntRange(0, len(leaves)-1).Draw(t, "victimBest")]
		}
	}
	// an eighth of the schedules has split deliveries, there one event in twenty (see c22Sim.split)
	inter := rapid.IntRange(0, 7).Draw(t, "interleaved") == 0
	sim, err := newC22Sim(n, byz, tree.parent, bests, gate)
	if err != nil {
		t.Fatalf("harness: %v", err)
	}
	head := sim.header()
	if inter {
		head += " interleaved"
	}
	if iso {
		sim.isoVictim = isoVictim
		sim.isoRound = uint64(rapid.SampledFrom([]int{1, 1, 1, 2}).Draw(t, "isoRound")) //nolint:gosec
		head += fmt.Sprintf(" partition=k%d@r%d", sim.isoVictim, sim.isoRound)
	}
	pickHonest := func(l string) *c22Voter {
		return sim.voters[sim.honest[rapid.IntRange(0, len(sim.honest)-1).Draw(t, l)]]
	}
	lossy := func() func(int) bool {
		if rapid.IntRange(0, 3).Draw(t, "lossy") > 0 {
			return nil
		}
		return func(int) bool { return rapid.IntRange(0, 3).Draw(t, "lose") == 0 }
	}
	pickRound := func() uint64 {
		if rapid.IntRange(0, 4).Draw(t, "anyRound") == 0 {
			return uint64(rapid.IntRange(1, c22MaxRounds).Draw(t, "round")) //nolint:gosec
		}
		return sim.maxRound()
	}
	// block choice for Byzantine votes: anywhere, biased to leaves (deep votes move the GHOST)
	pickBlock := func(l string) int {
		if rapid.Bool().Draw(t, l+"Leaf") {
			return leaves[rapid.IntRange(0, len(leaves)-1).Draw(t, l)]
		}
		return rapid.IntRange(0, tree.size()-1).Draw(t, l)
	}

	events := rapid.IntRange(20, 200).Draw(t, "events")
	for e := 0; e < events && sim.violation == ""; e++ {
		if inter && len(sim.pool) > 0 && rapid.IntRange(0, 19).Draw(t, "splitNow") == 0 {
			c22SplitEvent(t, sim)
			continue
		}
		k := rapid.IntRange(0, 99).Draw(t, "event")
		if iso && rapid.IntRange(0, 2).Draw(t, "isoBias") == 0 {
			k = rapid.SampledFrom([]int{86, 86, 78, 94, 94}).Draw(t, "isoEvent") // barrage, storm, tick
		}
		if len(byz) == 0 && k >= 60 && k < 92 {
			k = 0
		}
		switch {
		case k < 28:
			v := pickHonest("stepper")
			sim.logf("step k%d", v.key)
			sim.step(v)
		case k < 52:
			v := pickHonest("receiver")
			sim.logf("sync k%d", v.key)
			sim.sync(v, lossy())
		case k < 60:
			if len(sim.pool) == 0 {
				continue
			}
			v := pickHonest("receiver")
			mi := rapid.IntRange(0, len(sim.pool)-1).Draw(t, "message")
			sim.logf("deliver k%d <- m%d(%s)", v.key, mi, sim.pool[mi].descr)
			sim.deliver(v, mi)
		case k < 70:
			b := byz[rapid.IntRange(0, len(byz)-1).Draw(t, "byz")]
			stage := rapid.SampledFrom([]Subround{prevote, prevote, prevote, prevote, precommit, precommit, precommit, precommit, primaryProposal}).Draw(t, "stage")
			blk := pickBlock("byzBlock")
			round := pickRound()
			mask := c22Subset(t, sim, "to")
			claim := b
			if rapid.IntRange(0, 9).Draw(t, "forge") == 0 {
				claim = sim.honest[rapid.IntRange(0, len(sim.honest)-1).Draw(t, "claim")]
			}
			mi := sim.byzVote(b, stage, blk, round, mask, claim)
			sim.logf("byz k%d sends m%d(%s) to %b", b, mi, sim.pool[mi].descr, mask)
			for _, h := range sim.honest {
				if mask&(1<<uint(h)) != 0 && rapid.IntRange(0, 3).Draw(t, "now") > 0 {
					sim.deliver(sim.voters[h], mi)
				}
			}
		case k < 78:
			b := byz[rapid.IntRange(0, len(byz)-1).Draw(t, "byz")]
			round := pickRound()
			target := rapid.IntRange(0, tree.size()-1).Draw(t, "target")
			greedy := rapid.IntRange(0, 3).Draw(t, "greedy") > 0
			var entries []c22Entry
			for _, sg := range sim.sigs {
				take := false
				switch {
				case sg.round != round:
					take = rapid.IntRange(0, 9).Draw(t, "otherRound") == 0
				case greedy:
					take = tree.isAncestorOrEqual(target, sg.blk) || rapid.IntRange(0, 5).Draw(t, "extra") == 0
				default:
					take = rapid.Bool().Draw(t, "take")
				}
				if take {
					entries = append(entries, c22Entry{sg.key, sg.blk, sg.sig})
				}
			}
			// fresh Byzantine pre-commits: for the target, possibly a second one elsewhere (equivocation)
			for _, bb := range byz {
				if rapid.IntRange(0, 4).Draw(t, "fresh") > 0 {
					desc := tree.subtree(target)
					blk := desc[rapid.IntRange(0, len(desc)-1).Draw(t, "freshBlk")]
					entries = append(entries, c22Entry{bb, blk, vSignVote(bb, precommit, tree.vote(blk), round, 0)})
					sim.sigs = append(sim.sigs, c22Sig{bb, round, blk, entries[len(entries)-1].sig})
					if rapid.IntRange(0, 3).Draw(t, "freshEquiv") == 0 {
						other := rapid.IntRange(0, tree.size()-1).Draw(t, "equivBlk")
						if other != blk {
							entries = append(entries, c22Entry{bb, other, vSignVote(bb, precommit, tree.vote(other), round, 0)})
							sim.equivocation = true
						}
					}
				}
			}
			// junk: forged entries in the name of honest voters, exact duplicates
			junk := rapid.IntRange(0, 9).Draw(t, "junk")
			if junk == 0 || junk == 1 {
				for _, h := range sim.honest {
					if rapid.Bool().Draw(t, "forgeEntry") {
						entries = append(entries, c22Entry{h, target, vSignVote(b, precommit, tree.vote(target), round, 0)})
						if junk == 1 { // twice, with different bad signatures
							entries = append(entries, c22Entry{h, target, vSignVote(b, precommit, tree.vote(target), round+7, 0)})
						}
					}
				}
			} else if junk == 2 && len(entries) > 0 {
				d := entries[rapid.IntRange(0, len(entries)-1).Draw(t, "dupEntry")]
				entries = append(entries, d, d)
			}
			mask := c22Subset(t, sim, "to")
			mi := sim.byzCommit(b, round, target, entries, mask)
			sim.logf("byz k%d sends m%d(%s) to %b", b, mi, sim.pool[mi].descr, mask)
			for _, h := range sim.honest {
				if mask&(1<<uint(h)) != 0 {
					sim.deliver(sim.voters[h], mi)
				}
			}
		case k < 86:
			// storm: every Byzantine voter tells one honest voter what would suit it - votes of the
			// voter's current round for one block (mostly the voter's own best block or pre-vote),
			// optionally also forged votes in the name of all other voters
			targets := []*c22Voter{pickHonest("stormTarget")}
			if rapid.Bool().Draw(t, "stormAll") {
				targets = targets[:0]
				for _, h := range sim.honest {
					targets = append(targets, sim.voters[h])
				}
			}
			mode := rapid.IntRange(0, 3).Draw(t, "stormBlock")
			drawn := pickBlock("stormBlk")
			up := rapid.IntRange(0, 2).Draw(t, "stormUp")
			stages := [][]Subround{{prevote}, {precommit}, {prevote, precommit}}[rapid.IntRange(0, 2).Draw(t, "stormStages")]
			forge := rapid.IntRange(0, 4).Draw(t, "stormForge") == 0
			for _, v := range targets {
				blk := v.env.bs.best // modes 2, 3: the voter's own best block
				switch mode {
				case 0:
					blk = drawn
				case 1: // a block between the voter's finalised head and its best block
					if anc := int(tree.number[blk]) - int(tree.number[v.env.bs.finalHead]); anc > up { //nolint:gosec
						blk = tree.ancestorAt(blk, tree.number[blk]-uint(up)) //nolint:gosec
					}
				}
				round := v.env.svc.state.round
				if round == 0 {
					round = 1
				}
				sim.logf("storm on k%d: b%d r%d stages=%v forge=%v", v.key, blk, round, stages, forge)
				for _, st := range stages {
					for _, b := range byz {
						sim.deliver(v, sim.byzVote(b, st, blk, round, 1<<uint(v.key), b))
					}
					if forge {
						for _, h := range sim.honest {
							if h != v.key {
								sim.deliver(v, sim.byzVote(byz[0], st, blk, round, 1<<uint(v.key), h))
							}
						}
					}
				}
			}
		case k < 92:
			// barrage: one Byzantine voter sends one honest voter 3..8 conflicting votes of one
			// round and stage, alternating between 2-3 blocks, with a drawn last block
			b := byz[rapid.IntRange(0, len(byz)-1).Draw(t, "byz")]
			v := pickHonest("barrageTarget")
			if iso && rapid.IntRange(0, 3).Draw(t, "barrageVictim") > 0 {
				v = sim.voters[isoVictim]
			}
			cand := []int{v.env.bs.best, pickBlock("barrageB")}
			if rapid.IntRange(0, 2).Draw(t, "barrageThree") == 0 {
				cand = append(cand, pickBlock("barrageC"))
			}
			kk := rapid.IntRange(3, 8).Draw(t, "barrageLen")
			start := rapid.IntRange(0, len(cand)-1).Draw(t, "barrageStart")
			seq := make([]int, kk)
			for i := range seq {
				seq[i] = cand[(start+i)%len(cand)]
			}
			if rapid.IntRange(0, 2).Draw(t, "barrageLastOwn") > 0 {
				seq[kk-1] = cand[0]
			} else {
				seq[kk-1] = cand[rapid.IntRange(0, len(cand)-1).Draw(t, "barrageLast")]
			}
			round := v.env.svc.state.round
			if round == 0 {
				round = 1
			}
			for _, st := range [][]Subround{{prevote}, {precommit}, {prevote, precommit}, {prevote, precommit}}[rapid.IntRange(0, 3).Draw(t, "barrageStages")] {
				sim.barrage(b, v, st, round, seq)
			}
		case k < 94:
			v := pickHonest("reorg")
			desc := tree.subtree(v.env.bs.finalHead)
			nb := desc[rapid.IntRange(0, len(desc)-1).Draw(t, "newBest")]
			nb = c22Deepest(tree, nb)
			v.env.bs.mu.Lock()
			v.env.bs.best = nb
			v.env.bs.mu.Unlock()
			sim.logf("best k%d := b%d", v.key, nb)
		default:
			sim.logf("tick")
			for _, h := range sim.honest {
				sim.step(sim.voters[h])
			}
			drop := lossy()
			for _, h := range sim.honest {
				sim.sync(sim.voters[h], drop)
			}
		}
	}
	sim.log = append([]string{head}, sim.log...)
	return sim
}

// c22SplitEvent: one split delivery. The voter is mostly one that stands at a
// round boundary (it knows its round is finalised and has not started the next
// one), the message mostly a vote of the voter's current round by another
// voter, the concurrent action mostly the voter's next protocol step.
func c22SplitEvent(t *rapid.T, sim *c22Sim) {
	var boundary []*c22Voter
	for _, h := range sim.honest {
		if hv := sim.voters[h]; hv.phase == c22Init && hv.env.svc.state.round >= 1 {
			boundary = append(boundary, hv)
		}
	}
	var v *c22Voter
	if len(boundary) > 0 && rapid.IntRange(0, 3).Draw(t, "splitBoundary") > 0 {
		v = boundary[rapid.IntRange(0, len(boundary)-1).Draw(t, "splitVoter")]
	} else {
		v = sim.voters[sim.honest[rapid.IntRange(0, len(sim.honest)-1).Draw(t, "splitVoter")]]
	}
	if v.phase == c22Crashed {
		return
	}
	roundBefore, phaseBefore := v.env.svc.state.round, v.phase
	var cands []int
	for i, m := range sim.pool {
		if m.isVote && m.round == roundBefore && m.author != v.key {
			cands = append(cands, i)
		}
	}
	var mi int
	if len(cands) > 0 && rapid.IntRange(0, 3).Draw(t, "splitCurrentVote") > 0 {
		mi = cands[rapid.IntRange(0, len(cands)-1).Draw(t, "splitMessage")]
	} else {
		mi = rapid.IntRange(0, len(sim.pool)-1).Draw(t, "splitMessage")
	}
	fn := rapid.SampledFrom(c22PausePoints).Draw(t, "splitAt")
	var second func()
	what, wait := "step", c22Grace
	if rapid.IntRange(0, 5).Draw(t, "splitSecond") == 0 {
		m2 := rapid.IntRange(0, len(sim.pool)-1).Draw(t, "splitSecondMessage")
		what = fmt.Sprintf("deliver m%d(%s)", m2, sim.pool[m2].descr)
		from, wire := peer.ID(fmt.Sprintf("p%d", sim.pool[m2].from)), sim.pool[m2].wire
		second = func() { _, _ = v.env.svc.handleNetworkMessage(from, wire) }
		sim.labels["split:second=deliver"] = true
	} else {
		second = func() { sim.step(v) }
		sim.labels["split:second=step"] = true
		if v.phase != c22Init {
			wait = c22LongGrace // only initiateRound takes the round lock
		}
	}
	sim.logf("split k%d <- m%d(%s) held in %s || %s", v.key, mi, sim.pool[mi].descr, fn, what)
	cur := sim.pool[mi]
	reached, blocked := sim.split(v, mi, fn, wait, second)
	switch {
	case !reached:
		sim.labels["split-not-reached"] = true
	default:
		sim.labels["split-delivery"] = true
		if blocked {
			sim.labels["split-second-waited"] = true
		}
		if cur.isVote && cur.round == roundBefore && v.phase != c22Crashed && v.env.svc.state.round > roundBefore {
			sim.labels["split-vote-across-round-start"] = true
			if phaseBefore == c22Init && roundBefore >= 1 {
				sim.labels["split-vote-across-round-start:after-finalisation"] = true
			}
		}
	}
}

func (sim *c22Sim) caseLabels() (bool, []string) {
	labels := []string{fmt.Sprintf("n=%d", sim.n), fmt.Sprintf("f=%d", len(sim.byz))}
	nonGenesis := false
	rounds := map[uint64]bool{}
	blocks := map[int]bool{}
	for _, f := range sim.finals {
		if f.blk != 0 {
			nonGenesis = true
		}
		rounds[f.round] = true
		blocks[f.blk] = true
	}
	if len(sim.finals) > 0 {
		labels = append(labels, "finalised-something")
	}
	if nonGenesis {
		labels = append(labels, "finalised-non-genesis")
	}
	labels = append(labels, fmt.Sprintf("rounds-with-finalisation=%d", len(rounds)), fmt.Sprintf("distinct-finalised-blocks=%d", len(blocks)))
	if sim.equivocation {
		labels = append(labels, "byz-equivocation")
	}
	if sim.dropped {
		labels = append(labels, "message-lost")
	}
	if sim.excluded > 0 {
		labels = append(labels, "known-finding-steered")
	}
	// honest voters pre-committed on different forks in one round
	for _, m := range sim.hpc {
		for _, a := range m {
			for _, b := range m {
				if !sim.tree.isAncestorOrEqual(a, b) && !sim.tree.isAncestorOrEqual(b, a) {
					sim.labels["honest-precommits-on-two-forks"] = true
				}
			}
		}
	}
	for l := range sim.labels {
		labels = append(labels, l)
	}
	sort.Strings(labels)
	return nonGenesis && (sim.equivocation || sim.dropped), labels
}

func TestC22Schedule(t *testing.T) {
	defer kit.Flush()
	kit.Note("rule", c22Rule)
	gate := kit.KnownOpen(c22Finding)
	rapid.Check(t, func(t *rapid.T) {
		sim := c22Schedule(t, gate)
		if sim.violation != "" {
			t.Fatalf("%s\nschedule:\n%s", sim.violation, strings.Join(sim.log, "\n"))
		}
		nontrivial, labels := sim.caseLabels()
		kit.Case(strings.Join(sim.log, ";"), nontrivial, labels...)
	})
}

// ---------------------------------------------------------------------------
// recorded schedule of the known finding (witness and, once the finding is
// closed, regression): gossamer has no round estimate, a voter that finalised
// only an ancestor in round r may vote for another fork in round r+1.
//
// n=4, keys 0,1,3 honest, key 2 Byzantine (primary of round 2). Tree:
// b0 - b1 - {b2, b3}. Round 1: k0 and k3 pre-vote b2, k1 pre-votes b3, k2
// pre-votes b2 towards k0,k3 and b3 towards k1. k0,k3 pre-commit b2, k1
// (GHOST b1) pre-commits b1. k0 sees pre-commits b2,b2,b2(k2),b1 and finalises
// b2; k1 sees b1,b2,b2 and finalises b1; k3 receives k1's commit for b1.
// Round 2: k1,k3 (head b1) follow the pre-vote of the primary k2 for b3, see
// 3 of 4 pre-votes and pre-commits for b3: b3 is finalised. b2 and b3 are
// siblings.

func c22KnownScenario(gate bool) (*c22Sim, error) {
	sim, err := newC22Sim(4, []int{2}, []int{-1, 0, 1, 1}, map[int]int{0: 2, 1: 3, 3: 2}, gate)
	if err != nil {
		return nil, err
	}
	k0, k1, k3 := sim.voters[0], sim.voters[1], sim.voters[3]
	find := func(descr string) int {
		for i, m := range sim.pool {
			if m.descr == descr {
				return i
			}
		}
		return -1
	}
	give := func(v *c22Voter, descr string) error {
		i := find(descr)
		if i < 0 {
			return fmt.Errorf("scenario: message %s is not on the network (%v)", descr, sim.log)
		}
		sim.logf("deliver k%d <- %s", v.key, descr)
		sim.deliver(v, i)
		return nil
	}
	type d struct {
		v *c22Voter
		m string
	}
	run := func(ds ...d) error {
		for _, x := range ds {
			if err := give(x.v, x.m); err != nil {
				return err
			}
		}
		return nil
	}
	mask := func(vs ...*c22Voter) (m uint32) {
		for _, v := range vs {
			m |= 1 << uint(v.key)
		}
		return m
	}
	for _, v := range []*c22Voter{k0, k1, k3} {
		sim.step(v) // initiateRound -> round 1
		sim.step(v) // pre-vote
	}
	sim.byzVote(2, prevote, 2, 1, mask(k0, k3), 2)
	sim.byzVote(2, prevote, 3, 1, mask(k1), 2)
	if err := run(d{k0, "pv:k2:r1:b2"}, d{k0, "pv:k3:r1:b2"}, d{k0, "pv:k1:r1:b3"},
		d{k3, "pv:k2:r1:b2"}, d{k3, "pv:k0:r1:b2"}, d{k3, "pv:k1:r1:b3"},
		d{k1, "pv:k2:r1:b3"}, d{k1, "pv:k0:r1:b2"}, d{k1, "pv:k3:r1:b2"}); err != nil {
		return sim, err
	}
	for _, v := range []*c22Voter{k0, k1, k3} {
		sim.step(v) // pre-commit
	}
	sim.byzVote(2, precommit, 2, 1, mask(k0), 2)
	if err := run(d{k0, "pc:k2:r1:b2"}, d{k0, "pc:k3:r1:b2"}, d{k0, "pc:k1:r1:b1"},
		d{k1, "pc:k0:r1:b2"}, d{k1, "pc:k3:r1:b2"}); err != nil {
		return sim, err
	}
	sim.step(k0) // finalises b2, gossips its commit
	sim.step(k1) // finalises b1, gossips its commit
	if err := give(k3, "commit:r1:b1:3pc"); err != nil {
		return sim, err
	}
	sim.step(k3) // round 1 completable
	for _, v := range []*c22Voter{k0, k1, k3} {
		sim.step(v) // initiateRound -> round 2
	}
	sim.byzVote(2, prevote, 3, 2, mask(k1, k3), 2)
	if err := run(d{k1, "pv:k2:r2:b3"}, d{k3, "pv:k2:r2:b3"}); err != nil {
		return sim, err
	}
	sim.step(k1) // pre-vote b3 (own best, and the primary's)
	sim.step(k3) // pre-vote b3 (follows the primary)
	if sim.excluded > 0 {
		return sim, nil
	}
	if err := run(d{k1, "pv:k3:r2:b3"}, d{k3, "pv:k1:r2:b3"}); err != nil {
		return sim, err
	}
	sim.step(k1)
	sim.step(k3)
	sim.byzVote(2, precommit, 3, 2, mask(k1, k3), 2)
	if err := run(d{k1, "pc:k2:r2:b3"}, d{k1, "pc:k3:r2:b3"}); err != nil {
		return sim, err
	}
	sim.step(k1)
	return sim, nil
}

func TestC22KnownNoRoundEstimate(t *testing.T) {
	defer kit.Flush()
	sim, err := c22KnownScenario(false)
	if err != nil {
		t.Fatalf("witness failed in a different way: %v", err)
	}
	t.Logf("schedule:\n%s", strings.Join(sim.log, "\n"))
	switch {
	case sim.violation == "":
		kit.WitnessResult(c22Finding, false, "")
	case strings.Contains(sim.violation, "finalised b3 in round 2") && strings.Contains(sim.violation, "finalised b2 in round 1"):
		kit.WitnessResult(c22Finding, true, sim.violation)
	default:
		t.Fatalf("witness failed in a different way: %s", sim.violation)
	}
}

// c22BarrageScenario: shrunk schedule of a seeded change (a cap on the recorded
// equivocatory votes after which further votes of the equivocator were stored
// as normal votes, so that it was counted twice). n=4, k2 Byzantine, tree
// b0-{b1,b2}; k0 prefers b1 and is cut off from k1,k3 (b2) in round 1; k2 sends
// k0 the pre-votes and pre-commits b2,b1,b2,b1,b1 and votes for b2 to k1,k3.
// k1,k3,k2 finalise b2; k0 must not finalise b1 from its own vote plus k2.
func c22BarrageScenario() (*c22Sim, error) {
	sim, err := newC22Sim(4, []int{2}, []int{-1, 0, 0}, map[int]int{0: 1, 1: 2, 3: 2}, false)
	if err != nil {
		return nil, err
	}
	k0, k1, k3 := sim.voters[0], sim.voters[1], sim.voters[3]
	give := func(v *c22Voter, descr string) error {
		for i, m := range sim.pool {
			if m.descr == descr {
				sim.logf("deliver k%d <- %s", v.key, descr)
				sim.deliver(v, i)
				return nil
			}
		}
		return fmt.Errorf("scenario: message %s is not on the network (%v)", descr, sim.log)
	}
	for _, v := range []*c22Voter{k0, k1, k3} {
		sim.step(v) // initiateRound -> round 1
		sim.step(v) // pre-vote: k0 b1, k1 (primary) b2, k3 b2
	}
	seq := []int{2, 1, 2, 1, 1}
	sim.barrage(2, k0, prevote, 1, seq)
	sim.barrage(2, k0, precommit, 1, seq)
	sim.byzVote(2, prevote, 2, 1, 1<<1|1<<3, 2)
	for _, x := range []struct {
		v *c22Voter
		m string
	}{{k1, "pv:k2:r1:b2"}, {k3, "pv:k2:r1:b2"}, {k1, "pv:k3:r1:b2"}, {k3, "pv:k1:r1:b2"}} {
		if err := give(x.v, x.m); err != nil {
			return sim, err
		}
	}
	sim.step(k0) // k0 sees b1 from itself and from the equivocator: 2 of 4, must wait
	sim.step(k1) // pre-commit b2
	sim.step(k3)
	sim.byzVote(2, precommit, 2, 1, 1<<1|1<<3, 2)
	for _, x := range []struct {
		v *c22Voter
		m string
	}{{k1, "pc:k2:r1:b2"}, {k1, "pc:k3:r1:b2"}} {
		if err := give(x.v, x.m); err != nil {
			return sim, err
		}
	}
	sim.step(k1) // finalises b2
	sim.step(k0)
	sim.step(k0)
	return sim, nil
}

// c22SplitScenario: pinned split delivery, modelled on the demonstration of a
// seeded change that released the round lock of validateVoteMessage after the
// round check. n=4, k3 Byzantine, tree b0-b1-{b2,b3}, best blocks k0:b2 k1:b2
// k2:b3. Round 1: k3 pre-votes b2 towards k1 and b3 towards k0,k2, so k1
// pre-commits b2 while k0 and k2 pre-commit their GHOST b1; with k3's pre-commit
// for b1, k0 finalises b1. k1's round-1 pre-commit for b2 then reaches k0 and is
// held in HasHeader (inside validateVote) while k0's round handler starts
// round 2. The vote may be recorded for round 1 (which is over) or rejected; it
// must not be counted in round 2.
func c22SplitScenario() (*c22Sim, bool, error) {
	sim, err := newC22Sim(4, []int{3}, []int{-1, 0, 1, 1}, map[int]int{0: 2, 1: 2, 2: 3}, false)
	if err != nil {
		return nil, false, err
	}
	k0, k1, k2 := sim.voters[0], sim.voters[1], sim.voters[2]
	find := func(descr string) int {
		for i, m := range sim.pool {
			if m.descr == descr {
				return i
			}
		}
		return -1
	}
	give := func(v *c22Voter, descr string) error {
		i := find(descr)
		if i < 0 {
			return fmt.Errorf("scenario: message %s is not on the network (%v)", descr, sim.log)
		}
		sim.logf("deliver k%d <- %s", v.key, descr)
		sim.deliver(v, i)
		return nil
	}
	for _, v := range []*c22Voter{k0, k1, k2} {
		sim.step(v) // initiateRound -> round 1
		sim.step(v) // pre-vote: k0 b2, k1 (primary) b2, k2 b3
	}
	sim.byzVote(3, prevote, 2, 1, 1<<1, 3)
	sim.byzVote(3, prevote, 3, 1, 1<<0|1<<2, 3)
	for _, x := range []struct {
		v *c22Voter
		m string
	}{{k1, "pv:k0:r1:b2"}, {k1, "pv:k3:r1:b2"}, {k0, "pv:k2:r1:b3"}, {k0, "pv:k3:r1:b3"}, {k2, "pv:k0:r1:b2"}, {k2, "pv:k3:r1:b3"}} {
		if err := give(x.v, x.m); err != nil {
			return sim, false, err
		}
	}
	for _, v := range []*c22Voter{k0, k1, k2} {
		sim.step(v) // pre-commit: k0 b1, k1 b2, k2 b1
	}
	sim.byzVote(3, precommit, 1, 1, 1<<0|1<<2, 3)
	for _, m := range []string{"pc:k2:r1:b1", "pc:k3:r1:b1"} {
		if err := give(k0, m); err != nil {
			return sim, false, err
		}
	}
	sim.step(k0) // finalises b1 in round 1
	late := find("pc:k1:r1:b2")
	if late < 0 || k0.phase != c22Init || k0.env.svc.state.round != 1 {
		return sim, false, fmt.Errorf("scenario: k0 did not finalise round 1 or k1 did not pre-commit b2 (%v)", sim.log)
	}
	sim.logf("split k0 <- pc:k1:r1:b2 held in HasHeader || step")
	reached, _ := sim.split(k0, late, "HasHeader", c22Grace, func() { sim.step(k0) })
	return sim, reached, nil
}

// TestC22Regressions: the recorded schedule must be safe unless the finding is
// listed as open; with the steering on it must be withheld, not violated.
func TestC22Regressions(t *testing.T) {
	defer kit.Flush()
	open := kit.KnownOpen(c22Finding)
	sim, err := c22KnownScenario(open)
	if err != nil {
		t.Fatalf("harness: %v", err)
	}
	if sim.violation != "" {
		t.Fatalf("%s\nschedule:\n%s", sim.violation, strings.Join(sim.log, "\n"))
	}
	if open && sim.excluded == 0 {
		t.Fatalf("the recorded schedule of %s did not reach its trigger\n%s", c22Finding, strings.Join(sim.log, "\n"))
	}
	sim, err = c22BarrageScenario()
	if err != nil {
		t.Fatalf("harness: %v", err)
	}
	if sim.violation != "" {
		t.Fatalf("%s\nschedule:\n%s", sim.violation, strings.Join(sim.log, "\n"))
	}
	if len(sim.finals) == 0 {
		t.Fatalf("barrage schedule: nothing was finalised\n%s", strings.Join(sim.log, "\n"))
	}
	sim, reached, err := c22SplitScenario()
	if err != nil {
		t.Fatalf("harness: %v", err)
	}
	if sim.violation != "" {
		t.Fatalf("%s\nschedule:\n%s", sim.violation, strings.Join(sim.log, "\n"))
	}
	if !reached || sim.voters[0].env.svc.state.round != 2 {
		t.Fatalf("split schedule: the held delivery was not reached or k0 did not start round 2\n%s", strings.Join(sim.log, "\n"))
	}
}

// ---------------------------------------------------------------------------
// layer 2: quorum intersection of commit acceptance

const c22QRule = "layer 2: n in 1..10 voters, f <= floor((n-1)/3) Byzantine, tree of 3-9 blocks; one round; pool = at most one pre-commit per honest voter (clustered on two forks) + any number of Byzantine pre-commits; " +
	"2-4 commits for drawn targets, each assembled greedily (everything on target-or-descendant + Byzantine equivocations) or from a drawn subset, plus forged/duplicated/other-round entries, each handed to handleCommitMessage of a fresh honest Service; " +
	"oracle: accepted targets pairwise on one chain. Non-trivial = two commits for blocks on different forks were tried and at least one commit was accepted."

func TestC22QuorumIntersection(t *testing.T) {
	defer kit.Flush()
	kit.Note("rule-layer2", c22QRule)
	rapid.Check(t, func(t *rapid.T) {
		n := rapid.SampledFrom([]int{1, 2, 3, 4, 4, 5, 6, 6, 7, 7, 8, 9, 10}).Draw(t, "n")
		f := (n - 1) / 3
		if rapid.IntRange(0, 5).Draw(t, "fewerByz") == 0 {
			f = rapid.IntRange(0, f).Draw(t, "f")
		}
		tree := vGenTree(t, 3, 9)
		round := uint64(rapid.IntRange(1, 3).Draw(t, "round")) //nolint:gosec
		keys := make([]int, n)
		for i := range keys {
			keys[i] = i
		}
		// Byzantine = the first f keys (membership only matters through the signatures)
		a := rapid.IntRange(0, tree.size()-1).Draw(t, "forkA")
		b := rapid.IntRange(0, tree.size()-1).Draw(t, "forkB")
		near := func(l string) int {
			switch rapid.IntRange(0, 4).Draw(t, l+"Where") {
			case 0:
				return rapid.IntRange(0, tree.size()-1).Draw(t, l)
			case 1, 2:
				d := tree.subtree(a)
				return d[rapid.IntRange(0, len(d)-1).Draw(t, l)]
			default:
				d := tree.subtree(b)
				return d[rapid.IntRange(0, len(d)-1).Draw(t, l)]
			}
		}
		var pool []c22Entry
		var descr strings.Builder
		fmt.Fprintf(&descr, "n=%d f=%d tree=%s r=%d pool:", n, f, tree.describe(), round)
		for k := f; k < n; k++ {
			if rapid.IntRange(0, 9).Draw(t, "abstain") == 0 {
				continue
			}
			blk := near("honestBlk")
			pool = append(pool, c22Entry{k, blk, vSignVote(k, precommit, tree.vote(blk), round, 0)})
			fmt.Fprintf(&descr, " k%d:b%d", k, blk)
		}
		for k := 0; k < f; k++ {
			for i := rapid.SampledFrom([]int{0, 1, 2, 3, 3, 5, 8}).Draw(t, "byzVotes"); i > 0; i-- {
				blk := near("byzBlk")
				pool = append(pool, c22Entry{k, blk, vSignVote(k, precommit, tree.vote(blk), round, 0)})
				fmt.Fprintf(&descr, " K%d:b%d", k, blk)
			}
		}
		type attempt struct {
			target   int
			accepted bool
		}
		var atts []attempt
		nc := rapid.IntRange(2, 4).Draw(t, "commits")
		for c := 0; c < nc; c++ {
			target := near("target")
			var entries []c22Entry
			greedy := rapid.IntRange(0, 3).Draw(t, "greedy") > 0
			for _, e := range pool {
				if greedy || rapid.Bool().Draw(t, "take") {
					entries = append(entries, e)
				}
			}
			switch rapid.IntRange(0, 7).Draw(t, "junk") {
			case 0: // forged entries in the name of honest voters
				for k := f; k < n; k++ {
					entries = append(entries, c22Entry{k, target, vSignVote(100+k, precommit, tree.vote(target), round, 0)})
				}
			case 1: // duplicates of everything
				entries = append(entries, entries...)
			case 2: // honest pre-commits of another round, re-targeted
				for k := f; k < n; k++ {
					entries = append(entries, c22Entry{k, target, vSignVote(k, precommit, tree.vote(target), round+1, 0)})
				}
			case 3: // outsiders
				for k := 0; k < n; k++ {
					entries = append(entries, c22Entry{200 + k, target, vSignVote(200+k, precommit, tree.vote(target), round, 0)})
				}
			}
			// fresh honest service with its finalised head at genesis
			bs := newVBlockState(tree, 0, 0, 0, c22Deepest(tree, 0))
			env, err := vNewService(bs, keys, n-1, 0)
			if err != nil {
				t.Fatalf("harness: %v", err)
			}
			cmsg := &CommitMessage{Round: round, SetID: 0, Vote: tree.vote(target)}
			for _, e := range entries {
				cmsg.Precommits = append(cmsg.Precommits, tree.vote(e.blk))
				cmsg.AuthData = append(cmsg.AuthData, AuthData{Signature: e.sig, AuthorityID: vPub(e.key)})
			}
			_ = env.svc.handleCommitMessage(cmsg)
			acc := false
			for _, call := range bs.finalCalls() {
				blk, ok := tree.index[call.hash]
				if !ok || blk != target {
					t.Fatalf("commit for b%d made the service finalise %s\ncase: %s", target, call.hash, descr.String())
				}
				acc = true
			}
			atts = append(atts, attempt{target, acc})
			fmt.Fprintf(&descr, " | commit b%d greedy=%v entries=%d accepted=%v", target, greedy, len(entries), acc)
		}
		conflictTried, anyAccepted := false, false
		for i, x := range atts {
			anyAccepted = anyAccepted || x.accepted
			for _, y := range atts[:i] {
				conflict := !tree.isAncestorOrEqual(x.target, y.target) && !tree.isAncestorOrEqual(y.target, x.target)
				conflictTried = conflictTried || conflict
				if conflict && x.accepted && y.accepted {
					t.Fatalf("commits for b%d and b%d (different forks) were both accepted from one pool with at most one pre-commit per honest voter\ncase: %s",
						y.target, x.target, descr.String())
				}
			}
		}
		labels := []string{fmt.Sprintf("L2:n=%d", n)}
		if anyAccepted {
			labels = append(labels, "L2:commit-accepted")
		}
		if conflictTried {
			labels = append(labels, "L2:conflicting-targets")
		}
		kit.Case("L2 "+descr.String(), conflictTried && anyAccepted, labels...)
	})
}
