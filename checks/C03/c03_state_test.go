package state

// State-level harness of property C03 (dot/state InmemoryStorageState):
// chains and forks of TrieState(parentRoot) -> SetVersion -> mutate ->
// StoreTrie over one in-memory Pebble table, children re-derived from old
// roots, with and without the parent evicted from the Tries cache.
//
// Oracle: one model per stored state (main map, child maps, per-key
// "stored hashed" flag = version at the last write was V1 && len > 32) and the
// from-the-spec root computed from it (c03sMixedRoot, the kit/spectrie
// construction with a per-key flag; it shares no code with pkg/trie).

import (
	"bytes"
	"fmt"
	"sort"
	"strings"
	"sync"
	"testing"

	"github.com/ChainSafe/gossamer/dot/state/pruner"
	"github.com/ChainSafe/gossamer/internal/database"
	kit "github.com/ChainSafe/gossamer/internal/verifkit"
	"github.com/ChainSafe/gossamer/lib/common"
	"github.com/ChainSafe/gossamer/lib/runtime/storage"
	"github.com/ChainSafe/gossamer/pkg/trie"
	inmemory_trie "github.com/ChainSafe/gossamer/pkg/trie/inmemory"
	"github.com/ChainSafe/gossamer/pkg/trie/node"
	"pgregory.net/rapid"
)

// ---- from-the-spec root with a per-key hashed flag -------------------------

type c03sKV struct {
	k      []byte
	v      []byte
	hashed bool
}

func c03sValuePart(e c03sKV) ([]byte, bool) {
	if e.hashed {
		h := kit.Blake256(e.v)
		return h[:], true
	}
	return append(kit.SpecCompact(uint64(len(e.v))), e.v...), false
}

func c03sEncode(es []c03sKV, off int) []byte {
	const (
		leaf          = 0b01 << 6
		branchNoValue = 0b10 << 6
		branchValue   = 0b11 << 6
		leafHashed    = 0b001 << 5
		branchHashed  = 0b0001 << 4
	)
	if len(es) == 1 {
		pk := es[0].k[off:]
		val, hashed := c03sValuePart(es[0])
		variant := byte(leaf)
		if hashed {
			variant = leafHashed
		}
		out := kit.SpecHeader(variant, len(pk))
		out = append(out, kit.SpecPackNibbles(pk)...)
		return append(out, val...)
	}
	a, b := es[0].k[off:], es[len(es)-1].k[off:]
	cp := 0
	for cp < len(a) && cp < len(b) && a[cp] == b[cp] {
		cp++
	}
	pk := a[:cp]
	rest := es
	var valPart []byte
	variant := byte(branchNoValue)
	if len(es[0].k) == off+cp {
		var hashed bool
		valPart, hashed = c03sValuePart(es[0])
		variant = branchValue
		if hashed {
			variant = branchHashed
		}
		rest = es[1:]
	}
	var bitmap uint16
	var children []byte
	for i := 0; i < len(rest); {
		nib := rest[i].k[off+cp]
		j := i
		for j < len(rest) && rest[j].k[off+cp] == nib {
			j++
		}
		bitmap |= 1 << nib
		childEnc := c03sEncode(rest[i:j], off+cp+1)
		if len(childEnc) >= 32 {
			h := kit.Blake256(childEnc)
			childEnc = h[:]
		}
		children = append(children, kit.SpecCompact(uint64(len(childEnc)))...)
		children = append(children, childEnc...)
		i = j
	}
	out := kit.SpecHeader(variant, len(pk))
	out = append(out, kit.SpecPackNibbles(pk)...)
	out = append(out, byte(bitmap), byte(bitmap>>8))
	out = append(out, valPart...)
	return append(out, children...)
}

func c03sMixedRoot(m kit.OrdMap, hashed map[string]bool) common.Hash {
	if len(m) == 0 {
		return common.Hash(kit.Blake256([]byte{0}))
	}
	keys := m.Keys()
	es := make([]c03sKV, len(keys))
	for i, k := range keys {
		es[i] = c03sKV{kit.KeyNibbles([]byte(k)), m[k], hashed[k]}
	}
	return common.Hash(kit.Blake256(c03sEncode(es, 0)))
}

func TestC03StateOracleSelfCheck(t *testing.T) {
	defer kit.Flush()
	rapid.Check(t, func(t *rapid.T) {
		m := kit.OrdMap{}
		n := rapid.IntRange(0, 20).Draw(t, "n")
		for i := 0; i < n; i++ {
			m[string(kit.GenKey().Draw(t, "k"))] = kit.GenValue().Draw(t, "v")
		}
		for _, v1 := range []bool{false, true} {
			h := map[string]bool{}
			for k, v := range m {
				h[k] = v1 && len(v) > 32
			}
			if c03sMixedRoot(m, h) != common.Hash(kit.SpecRoot(m, v1)) {
				t.Fatalf("c03sMixedRoot != kit.SpecRoot for uniform flags, v1=%v map %s", v1, m.Describe())
			}
		}
	})
}

// ---- model -----------------------------------------------------------------

type c03sTrieModel struct {
	m      kit.OrdMap
	hashed map[string]bool
}

func (t c03sTrieModel) clone() c03sTrieModel {
	c := c03sTrieModel{m: t.m.Clone(), hashed: map[string]bool{}}
	for k, v := range t.hashed {
		c.hashed[k] = v
	}
	return c
}
func (t c03sTrieModel) put(k, v []byte, v1 bool) {
	t.m[string(k)] = v
	if v1 && len(v) > 32 {
		t.hashed[string(k)] = true
	} else {
		delete(t.hashed, string(k))
	}
}
func (t c03sTrieModel) del(k []byte) {
	delete(t.m, string(k))
	delete(t.hashed, string(k))
}
func (t c03sTrieModel) root() common.Hash { return c03sMixedRoot(t.m, t.hashed) }

type c03sStateModel struct {
	v1       bool
	main     c03sTrieModel
	children map[string]c03sTrieModel
}

func (s c03sStateModel) clone() c03sStateModel {
	c := c03sStateModel{v1: s.v1, main: s.main.clone(), children: map[string]c03sTrieModel{}}
	for n, m := range s.children {
		c.children[n] = m.clone()
	}
	return c
}
func (s c03sStateModel) childNames() []string {
	ns := make([]string, 0, len(s.children))
	for n := range s.children {
		ns = append(ns, n)
	}
	sort.Strings(ns)
	return ns
}

// full returns the expected content of the main trie: main keys plus one
// ":child_storage:default:<name>" -> child root entry per child trie.
func (s c03sStateModel) full() c03sTrieModel {
	f := s.main.clone()
	for n, c := range s.children {
		r := c.root()
		f.m[string(inmemory_trie.ChildStorageKeyPrefix)+n] = r[:]
	}
	return f
}

func c03sSameMap(got map[string][]byte, want kit.OrdMap) error {
	if len(got) != len(want) {
		return fmt.Errorf("has %d keys, model %d: got %s, model %s", len(got), len(want), kit.OrdMap(got).Describe(), want.Describe())
	}
	for k, v := range want {
		g, ok := got[k]
		if !ok || !bytes.Equal(g, v) {
			return fmt.Errorf("key %x: got %x (present %v), model %x", k, g, ok, v)
		}
	}
	return nil
}

func c03sWouldAlias(s c03sStateModel, name string, next kit.OrdMap) bool {
	if len(next) == 0 {
		return false
	}
	for n, c := range s.children {
		if n == name || len(c.m) != len(next) {
			continue
		}
		same := true
		for k, v := range next {
			if ov, ok := c.m[k]; !ok || !bytes.Equal(ov, v) {
				same = false
				break
			}
		}
		if same {
			return true
		}
	}
	return false
}

// ---- harness ---------------------------------------------------------------

var (
	c03sPebbleOnce sync.Once
	c03sPebble     database.Database
	c03sTableSeq   int
)

// c03sNewStorage returns a storage state over a fresh table of one in-memory
// Pebble database per process (what NewStorageState builds, minus BlockState,
// which is only used when the root argument is nil).
func c03sNewStorage(t *rapid.T) *InmemoryStorageState {
	c03sPebbleOnce.Do(func() {
		db, err := database.NewPebble("", true)
		if err != nil {
			panic(err)
		}
		c03sPebble = db
	})
	c03sTableSeq++
	return &InmemoryStorageState{
		tries:  NewTries(),
		db:     database.NewTable(c03sPebble, fmt.Sprintf("storage-%d/", c03sTableSeq)),
		pruner: &pruner.ArchiveNode{},
	}
}

type c03sStored struct {
	root  common.Hash
	model c03sStateModel
}

func c03sShort(v []byte) string {
	if len(v) > 3 {
		return fmt.Sprintf("%x..%d", v[:2], len(v))
	}
	return fmt.Sprintf("%x", v)
}

const c03sAliasFinding = "C04-child-tries-alias"

var c03sChildNames = []string{"a", "b", "ab"}

func c03sDeepDirtyCopy(n *node.Node) *node.Node {
	c := n.Copy(node.DefaultCopySettings)
	c.Dirty = true
	c.MerkleValue = nil
	for i, ch := range c.Children {
		if ch != nil {
			c.Children[i] = c03sDeepDirtyCopy(ch)
		}
	}
	return c
}

// c03sCheckTrie: a trie object (cached or reloaded) shows exactly the model.
func c03sCheckTrie(tr trie.Trie, st c03sStored, what string) error {
	full := st.model.full()
	h, err := tr.Hash()
	if err != nil || h != st.root {
		return fmt.Errorf("%s: Hash() %s (err %v), stored root %s; model %s", what, h, err, st.root, full.m.Describe())
	}
	if err := c03sSameMap(tr.Entries(), full.m); err != nil {
		return fmt.Errorf("%s: Entries(): %v", what, err)
	}
	if im, ok := tr.(*inmemory_trie.InMemoryTrie); ok && h != trie.EmptyHash {
		// root recomputed from the nodes, cached Merkle values not trusted
		dh, err := inmemory_trie.NewTrie(c03sDeepDirtyCopy(im.RootNode()), nil).Hash()
		if err != nil || dh != st.root {
			return fmt.Errorf("%s: LATENT: root recomputed from its nodes %s (err %v), stored root %s; model %s", what, dh, err, st.root, full.m.Describe())
		}
	}
	for _, n := range st.model.childNames() {
		cm := st.model.children[n]
		ct, err := tr.GetChild([]byte(n))
		if err != nil || ct == nil {
			return fmt.Errorf("%s: GetChild(%q) = %v, err %v; child model %s", what, n, ct, err, cm.m.Describe())
		}
		if err := c03sSameMap(ct.Entries(), cm.m); err != nil {
			return fmt.Errorf("%s: child %q: %v", what, n, err)
		}
		if ch, err := ct.Hash(); err != nil || ch != cm.root() {
			return fmt.Errorf("%s: child %q root %s (err %v), spec %s", what, n, ch, err, cm.root())
		}
	}
	return nil
}

// c03sVerifyStored checks one stored state through the StorageState API: first
// as it is (cached trie, if any), then with the trie evicted from the cache
// (GetStorage -> GetFromDB; LoadFromDB; Entries; GetStorageChild...).
func c03sVerifyStored(s *InmemoryStorageState, st c03sStored, evict bool, extra [][]byte, labels map[string]bool) error {
	full := st.model.full()
	if cached := s.tries.get(st.root); cached != nil {
		if err := c03sCheckTrie(cached, st, "cached trie"); err != nil {
			return err
		}
		for k, v := range full.m {
			got, err := s.GetStorage(&st.root, []byte(k))
			if err != nil || got == nil || !bytes.Equal(got, v) {
				return fmt.Errorf("GetStorage(cached, %x) = %x (err %v), model %x", k, got, err, v)
			}
		}
		labels["read-cached"] = true
	}
	if !evict {
		return nil
	}
	s.tries.delete(st.root)
	labels["read-evicted"] = true
	keys := full.m.Keys()
	if !c03sDirectReads {
		keys = nil // direct database reads (GetStorage -> GetFromDB) are C04's subject
	}
	for _, k := range keys {
		v := full.m[k]
		got, err := s.GetStorage(&st.root, []byte(k))
		if err != nil {
			return fmt.Errorf("GetStorage(evicted root %s, present key %x): error %v; model value %x; model %s", st.root, k, err, v, full.m.Describe())
		}
		if got == nil || !bytes.Equal(got, v) {
			return fmt.Errorf("GetStorage(evicted root %s, present key %x) = %x (nil %v), model value %x (%d bytes, hashed %v); model %s",
				st.root, k, got, got == nil, v, len(v), full.hashed[k], full.m.Describe())
		}
		if full.hashed[k] {
			labels["direct-read-of-hashed-v1-value"] = true
		}
	}
	// absent keys near present ones
	var probes [][]byte
	for _, k := range keys {
		if len(k) > 0 && len(k) <= 8 {
			probes = append(probes, []byte(k[:len(k)-1]), append([]byte(k), 0x00))
			c := []byte(k)
			c[len(c)-1] ^= 0x01
			probes = append(probes, c)
			c2 := []byte(k)
			c2[0] ^= 0x10
			probes = append(probes, c2)
		}
	}
	probes = append(probes, extra...)
	if !c03sDirectReads {
		probes = nil
	}
	if len(probes) > 40 {
		probes = probes[:40]
	}
	for _, k := range probes {
		if _, in := full.m[string(k)]; in {
			continue
		}
		got, err := s.GetStorage(&st.root, k)
		if err != nil || got != nil {
			return fmt.Errorf("GetStorage(evicted root %s, absent key %x) = %x, err %v; want absent; model %s", st.root, k, got, err, full.m.Describe())
		}
		ex, err := s.ExistsStorage(&st.root, k)
		if err != nil || ex {
			return fmt.Errorf("ExistsStorage(evicted root %s, absent key %x) = %v, err %v", st.root, k, ex, err)
		}
	}
	if s.tries.get(st.root) != nil {
		return fmt.Errorf("harness: GetStorage re-cached the trie")
	}
	// reload
	tr, err := s.LoadFromDB(st.root)
	if err != nil {
		return fmt.Errorf("LoadFromDB(%s): %v; model %s", st.root, err, full.m.Describe())
	}
	if err := c03sCheckTrie(tr, st, "trie reloaded with LoadFromDB"); err != nil {
		return err
	}
	ents, err := s.Entries(&st.root)
	if err != nil {
		return fmt.Errorf("Entries(%s): %v", st.root, err)
	}
	if err := c03sSameMap(ents, full.m); err != nil {
		return fmt.Errorf("StorageState.Entries after reload: %v", err)
	}
	for _, n := range st.model.childNames() {
		for k, v := range st.model.children[n].m {
			got, err := s.GetStorageFromChild(&st.root, []byte(n), []byte(k))
			if err != nil || got == nil || !bytes.Equal(got, v) {
				return fmt.Errorf("GetStorageFromChild(%s, %q, %x) = %x, err %v; model %x", st.root, n, k, got, err, v)
			}
		}
	}
	return nil
}

// c03sRun generates and checks one history; it returns the description, the
// labels and the counters the two properties use for their non-triviality rule.
func c03sRun(t *rapid.T) (descr string, labels map[string]bool, storedWithContent, mutatedForks int) {
	labels = map[string]bool{}
	var d strings.Builder
	s := c03sNewStorage(t)
	var stored []c03sStored
	var pool [][]byte
	drawKey := func() []byte {
		if len(pool) > 0 && rapid.IntRange(0, 2).Draw(t, "reuse") > 0 {
			return pool[rapid.IntRange(0, len(pool)-1).Draw(t, "ki")]
		}
		k := kit.GenKey().Draw(t, "k")
		pool = append(pool, k)
		return k
	}
	curV1 := false
	drawValue := func(m c03sTrieModel, k []byte) []byte {
		if old, ok := m.m[string(k)]; ok {
			p := 3
			if len(old) > 32 && curV1 && !m.hashed[string(k)] {
				p = 1 // a big value still inlined after the upgrade: often rewritten unchanged
			}
			if rapid.IntRange(0, p).Draw(t, "same") == 0 {
				return append([]byte{}, old...) // unchanged value written again
			}
		}
		if rapid.IntRange(0, 3).Draw(t, "tiny") == 0 {
			return rapid.SliceOfN(rapid.Byte(), 0, 3).Draw(t, "tv")
		}
		return kit.GenValue().Draw(t, "v")
	}
	fail := func(f string, a ...any) {
		t.Fatalf("%s\nhistory: %s", fmt.Sprintf(f, a...), d.String())
	}
	childrenOf := map[int]int{} // stored index -> number of mutated children derived from it

	nBlocks := rapid.IntRange(1, 6).Draw(t, "blocks")
	for bi := 0; bi < nBlocks; bi++ {
		var ts *storage.TrieState
		var model c03sStateModel
		parent := -1
		if bi == 0 {
			v1 := rapid.IntRange(0, 2).Draw(t, "genesisV1") == 0
			tr := inmemory_trie.NewEmptyTrie()
			ts = storage.NewTrieState(tr)
			if v1 {
				ts.SetVersion(trie.V1)
			}
			model = c03sStateModel{v1: v1, main: c03sTrieModel{kit.OrdMap{}, map[string]bool{}}, children: map[string]c03sTrieModel{}}
			fmt.Fprintf(&d, "G(v1=%v)", v1)
			if !c03sDirectReads {
				// C03 only: one ordinary main key that is never deleted, so that no state consists
				// of a single child-trie key (such a state is not written completely: C04, fix 04)
				if err := tr.Put([]byte{0xfe}, []byte{1}); err != nil {
					fail("Put: %v", err)
				}
				model.main.put([]byte{0xfe}, []byte{1}, v1)
			}
		} else {
			parent = rapid.IntRange(0, len(stored)-1).Draw(t, "parent")
			if rapid.IntRange(0, 1).Draw(t, "latest") == 0 {
				parent = len(stored) - 1
			}
			if parent != len(stored)-1 {
				labels["derived-from-older-root"] = true
			}
			pst := stored[parent]
			evicted := false
			if rapid.IntRange(0, 2).Draw(t, "evictParent") == 0 {
				s.tries.delete(pst.root)
				evicted = true
				labels["parent-loaded-from-db"] = true
			}
			var err error
			func() {
				defer func() {
					if r := recover(); r != nil {
						err = fmt.Errorf("panic: %v", r)
					}
				}()
				ts, err = s.TrieState(&pst.root)
			}()
			if err != nil {
				fail("TrieState(%s) (parent state %d, evicted %v): %v; model %s", pst.root, parent, evicted, err, pst.model.full().m.Describe())
			}
			model = pst.model.clone()
			// Roots do not commit to the version: if a state with the same root was
			// stored under V1, the cached trie may be that V1 trie, and SetVersion(V0)
			// on its snapshot panics ("cannot regress trie version"). The runtime's state
			// version never decreases along a chain, so continue under V1 then.
			for _, o := range stored {
				if o.root == pst.root && o.model.v1 {
					model.v1 = true
				}
			}
			// the runtime sets the state version of the block on the trie state
			if !model.v1 && rapid.IntRange(0, 3).Draw(t, "upgrade") == 0 {
				model.v1 = true
				labels["upgrade-v0-to-v1"] = true
			}
			if model.v1 {
				ts.SetVersion(trie.V1)
			} else {
				ts.SetVersion(trie.V0)
			}
			fmt.Fprintf(&d, " | B%d<-%d(evict=%v,v1=%v)", bi, parent, evicted, model.v1)
		}
		tr := ts.Trie().(*inmemory_trie.InMemoryTrie)
		curV1 = model.v1
		nOps := rapid.IntRange(0, 8).Draw(t, "nops")
		if bi == 0 {
			nOps += 3
		}
		changed := false
		for oi := 0; oi < nOps; oi++ {
			c := rapid.IntRange(0, 11).Draw(t, "op")
			switch {
			case c <= 5:
				k := drawKey()
				v := drawValue(model.main, k)
				fmt.Fprintf(&d, " P%x=%s", k, c03sShort(v))
				if err := tr.Put(k, v); err != nil {
					fail("Put: %v", err)
				}
				if old, ok := model.main.m[string(k)]; ok && bytes.Equal(old, v) && model.main.hashed[string(k)] != (model.v1 && len(v) > 32) {
					labels["unchanged-big-value-rewritten-after-upgrade"] = true
				}
				model.main.put(k, v, model.v1)
				changed = true
			case c <= 7:
				k := drawKey()
				fmt.Fprintf(&d, " D%x", k)
				if err := tr.Delete(k); err != nil {
					fail("Delete: %v", err)
				}
				if _, ok := model.main.m[string(k)]; ok {
					changed = true
				}
				model.main.del(k)
			case c <= 9:
				name := rapid.SampledFrom(c03sChildNames).Draw(t, "child")
				cm, ok := model.children[name]
				if !ok {
					cm = c03sTrieModel{kit.OrdMap{}, map[string]bool{}}
				}
				k := drawKey()
				v := drawValue(cm, k)
				next := cm.m.Clone()
				next[string(k)] = v
				if c03sSaltChildren {
					// child values carry the child name: two child tries never have identical
					// content (child tries are keyed by root hash; that defect belongs to C04)
					if !bytes.HasPrefix(v, []byte(name+":")) {
						v = append([]byte(name+":"), v...)
					}
				} else if c03sWouldAlias(model, name, next) {
					if kit.KnownOpen(c03sAliasFinding) {
						kit.Excluded(c03sAliasFinding)
						v = append([]byte(name+":"), v...)
					} else {
						labels["two-child-tries-identical-content"] = true
					}
				}
				fmt.Fprintf(&d, " CP[%s]%x=%s", name, k, c03sShort(v))
				if err := tr.PutIntoChild([]byte(name), k, v); err != nil {
					fail("PutIntoChild: %v", err)
				}
				cm.put(k, v, model.v1)
				model.children[name] = cm
				changed = true
				labels["child-trie"] = true
			case c == 10:
				names := model.childNames()
				if len(names) == 0 {
					continue
				}
				name := names[rapid.IntRange(0, len(names)-1).Draw(t, "cn")]
				cm := model.children[name]
				ks := cm.m.Keys()
				k := []byte(ks[rapid.IntRange(0, len(ks)-1).Draw(t, "ck")])
				next := cm.m.Clone()
				delete(next, string(k))
				if c03sWouldAlias(model, name, next) {
					if kit.KnownOpen(c03sAliasFinding) {
						kit.Excluded(c03sAliasFinding)
						continue
					}
					labels["two-child-tries-identical-content"] = true
				}
				fmt.Fprintf(&d, " CD[%s]%x", name, k)
				if err := tr.ClearFromChild([]byte(name), k); err != nil {
					fail("ClearFromChild: %v", err)
				}
				cm.del(k)
				if len(cm.m) == 0 {
					delete(model.children, name)
				}
				changed = true
			default:
				names := model.childNames()
				if len(names) == 0 {
					continue
				}
				name := names[rapid.IntRange(0, len(names)-1).Draw(t, "cn")]
				fmt.Fprintf(&d, " CX[%s]", name)
				if err := tr.DeleteChild([]byte(name)); err != nil {
					fail("DeleteChild: %v", err)
				}
				delete(model.children, name)
				changed = true
			}
		}
		root, err := tr.Hash()
		if err != nil {
			fail("Hash: %v", err)
		}
		full := model.full()
		if want := full.root(); root != want {
			fail("state %d: root of the derived state %s, spec root of its model %s; model %s", bi, root, want, full.m.Describe())
		}
		if err := s.StoreTrie(ts, nil); err != nil {
			fail("StoreTrie: %v", err)
		}
		st := c03sStored{root: root, model: model.clone()}
		dup := false
		for _, o := range stored {
			if o.root == root {
				dup = true
			}
		}
		stored = append(stored, st)
		if changed && len(full.m) > 0 {
			storedWithContent++
		}
		if parent >= 0 && changed && !dup && len(stored[parent].model.full().m) > 0 {
			childrenOf[parent]++
		}
		for k := range full.hashed {
			if full.hashed[k] {
				labels["hashed-v1-value"] = true
			}
		}
		for k, v := range full.m {
			if model.v1 && len(v) > 32 && !full.hashed[k] {
				labels["mixed-version-state(big value still inlined under v1)"] = true
			}
		}
		// every state stored so far must still show its own model (the cached
		// parent tries are shared, copy-on-write, with the states derived from them)
		for i, o := range stored {
			evict := i == len(stored)-1 && rapid.IntRange(0, 1).Draw(t, "evictNew") == 0
			extra := [][]byte{kit.GenKey().Draw(t, "absent")}
			if err := c03sVerifyStored(s, o, evict, extra, labels); err != nil {
				fail("after storing state %d: stored state %d: %v", bi, i, err)
			}
		}
	}
	// finally every state again with nothing cached
	for i, o := range stored {
		if err := c03sVerifyStored(s, o, true, nil, labels); err != nil {
			fail("final re-read: stored state %d: %v", i, err)
		}
	}
	for _, n := range childrenOf {
		mutatedForks += n
		if n >= 2 {
			labels["two-mutated-states-derived-from-one-root"] = true
		}
	}
	if len(stored) >= 3 {
		labels["states>=3"] = true
	}
	return d.String(), labels, storedWithContent, mutatedForks
}

func c03sLabelList(m map[string]bool) []string {
	ls := make([]string, 0, len(m))
	for l := range m {
		ls = append(ls, l)
	}
	sort.Strings(ls)
	return ls
}

const c03sSaltChildren = true
const c03sDirectReads = false

func TestC03State(t *testing.T) {
	defer kit.Flush()
	rapid.Check(t, func(t *rapid.T) {
		descr, labels, _, mutatedForks := c03sRun(t)
		kit.Case("state: "+descr, mutatedForks >= 2, c03sLabelList(labels)...)
	})
}
