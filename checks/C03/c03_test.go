package c03

import (
	"bytes"
	"fmt"
	"sort"
	"strings"
	"testing"

	"github.com/ChainSafe/gossamer/internal/database"
	kit "github.com/ChainSafe/gossamer/internal/verifkit"
	"github.com/ChainSafe/gossamer/pkg/trie"
	"github.com/ChainSafe/gossamer/pkg/trie/inmemory"
	"github.com/ChainSafe/gossamer/pkg/trie/node"
	"pgregory.net/rapid"
)

// ---------------------------------------------------------------------------
// Oracle: from-the-spec root of a map in which every key carries its own
// "value is stored hashed" flag.
//
// kit.SpecRoot(m, v1) hashes every value > 32 bytes (v1) or none (v0). A trie
// that was upgraded V0 -> V1 while it already held values > 32 bytes is a
// *mixed* state: old values stay inlined until they are written again (state
// migration; same in Substrate, where trie-db replaces Value::Inline by
// Value::NewNode on the next insert of the key). The per-key flag is a pure
// function of the history: hashed[k] = (version of the trie at the last Put(k)
// was V1 && len(value) > 32). mixedRoot is the kit/spectrie construction with
// that flag per key; TestC03OracleSelfCheck ties it to kit.SpecRoot for the
// uniform cases. It shares no code with pkg/trie.
// ---------------------------------------------------------------------------

type kv struct {
	k      []byte // nibbles
	v      []byte
	hashed bool
}

func valuePart(e kv) ([]byte, bool) {
	if e.hashed {
		h := kit.Blake256(e.v)
		return h[:], true
	}
	return append(kit.SpecCompact(uint64(len(e.v))), e.v...), false
}

const (
	hdrLeaf          = 0b01 << 6
	hdrBranchNoValue = 0b10 << 6
	hdrBranchValue   = 0b11 << 6
	hdrLeafHashed    = 0b001 << 5
	hdrBranchHashed  = 0b0001 << 4
)

func mixedEncode(es []kv, off int) []byte {
	if len(es) == 1 {
		pk := es[0].k[off:]
		val, hashed := valuePart(es[0])
		variant := byte(hdrLeaf)
		if hashed {
			variant = hdrLeafHashed
		}
		out := kit.SpecHeader(variant, len(pk))
		out = append(out, kit.SpecPackNibbles(pk)...)
		return append(out, val...)
	}
	a, b := es[0].k[off:], es[len(es)-1].k[off:]
	cp := 0
	for cp < len(a) && cp < len(b) && a[cp] == b[cp] {
		cp++
	}
	pk := a[:cp]
	rest := es
	var valPart []byte
	variant := byte(hdrBranchNoValue)
	if len(es[0].k) == off+cp {
		var hashed bool
		valPart, hashed = valuePart(es[0])
		variant = hdrBranchValue
		if hashed {
			variant = hdrBranchHashed
		}
		rest = es[1:]
	}
	var bitmap uint16
	var children []byte
	for i := 0; i < len(rest); {
		nib := rest[i].k[off+cp]
		j := i
		for j < len(rest) && rest[j].k[off+cp] == nib {
			j++
		}
		bitmap |= 1 << nib
		childEnc := mixedEncode(rest[i:j], off+cp+1)
		if len(childEnc) >= 32 {
			h := kit.Blake256(childEnc)
			childEnc = h[:]
		}
		children = append(children, kit.SpecCompact(uint64(len(childEnc)))...)
		children = append(children, childEnc...)
		i = j
	}
	out := kit.SpecHeader(variant, len(pk))
	out = append(out, kit.SpecPackNibbles(pk)...)
	out = append(out, byte(bitmap), byte(bitmap>>8))
	out = append(out, valPart...)
	return append(out, children...)
}

func mixedRoot(m kit.OrdMap, hashed map[string]bool) [32]byte {
	if len(m) == 0 {
		return kit.Blake256([]byte{0})
	}
	keys := m.Keys()
	es := make([]kv, len(keys))
	for i, k := range keys {
		es[i] = kv{kit.KeyNibbles([]byte(k)), m[k], hashed[k]}
	}
	return kit.Blake256(mixedEncode(es, 0))
}

func TestC03OracleSelfCheck(t *testing.T) {
	defer kit.Flush()
	rapid.Check(t, func(t *rapid.T) {
		m := kit.OrdMap{}
		n := rapid.IntRange(0, 25).Draw(t, "n")
		for i := 0; i < n; i++ {
			m[string(kit.GenKey().Draw(t, "k"))] = kit.GenValue().Draw(t, "v")
		}
		for _, v1 := range []bool{false, true} {
			h := map[string]bool{}
			for k, v := range m {
				h[k] = v1 && len(v) > 32
			}
			if mixedRoot(m, h) != kit.SpecRoot(m, v1) {
				t.Fatalf("mixedRoot != kit.SpecRoot for uniform flags, v1=%v map %s", v1, m.Describe())
			}
		}
	})
}

// ---------------------------------------------------------------------------
// Harness
// ---------------------------------------------------------------------------

// nullDB accepts and forgets writes: WriteDirty is only used here for its
// in-memory effect (nodes become clean, so cached Merkle values are trusted by
// the implementation afterwards, as after StoreTrie in a running node).
type nullDB struct{}
type nullBatch struct{}

func (nullDB) NewBatch() database.Batch { return nullBatch{} }
func (nullBatch) Put(_, _ []byte) error { return nil }
func (nullBatch) Del(_ []byte) error    { return nil }
func (nullBatch) Flush() error          { return nil }
func (nullBatch) Close() error          { return nil }
func (nullBatch) ValueSize() int        { return 0 }
func (nullBatch) Reset()                {}

type snap struct {
	tr      *inmemory.InMemoryTrie
	model   kit.OrdMap
	hashed  map[string]bool
	v1      bool
	frozen  bool // a snapshot was taken of it: real callers never mutate it again
	parent  int
	depth   int
	mutated bool // effectively mutated after its creation
	forkLen int  // size of the map inherited at creation
	want    [32]byte
}

func cloneFlags(h map[string]bool) map[string]bool {
	c := make(map[string]bool, len(h))
	for k, v := range h {
		c[k] = v
	}
	return c
}

// deepRoot recomputes the root of tr from a private deep copy of its node
// graph with every cached Merkle value dropped, so that a node that was
// corrupted in place through another snapshot cannot hide behind the cached
// Merkle value of a clean ancestor (it would surface as soon as a neighbouring
// key is touched).
func deepRoot(tr *inmemory.InMemoryTrie) ([32]byte, error) {
	h, err := tr.Hash()
	if err != nil {
		return [32]byte{}, err
	}
	if h == trie.EmptyHash {
		return h, nil // nil root (RootNode() would dereference it)
	}
	var cp func(n *node.Node) *node.Node
	cp = func(n *node.Node) *node.Node {
		c := n.Copy(node.DefaultCopySettings)
		c.Dirty = true
		c.MerkleValue = nil
		for i, ch := range c.Children {
			if ch != nil {
				c.Children[i] = cp(ch)
			}
		}
		return c
	}
	fresh := inmemory.NewTrie(cp(tr.RootNode()), nil)
	return fresh.Hash()
}

func (s *snap) check(i int, ctx func() string) error {
	got, err := s.tr.Hash()
	if err != nil {
		return fmt.Errorf("snapshot %d: Hash error %v", i, err)
	}
	if !bytes.Equal(got[:], s.want[:]) {
		return fmt.Errorf("snapshot %d (v1=%v): Hash() %x, spec root of its own history %x; model %s; %s",
			i, s.v1, got[:], s.want[:], s.model.Describe(), ctx())
	}
	ents := s.tr.Entries()
	if len(ents) != len(s.model) {
		return fmt.Errorf("snapshot %d: Entries() has %d keys, model %d; model %s; %s", i, len(ents), len(s.model), s.model.Describe(), ctx())
	}
	for k, v := range s.model {
		e, ok := ents[k]
		if !ok || !bytes.Equal(e, v) {
			return fmt.Errorf("snapshot %d: key %x: trie %x (present %v), model %x; %s", i, k, e, ok, v, ctx())
		}
	}
	deep, err := deepRoot(s.tr)
	if err != nil {
		return fmt.Errorf("snapshot %d: deep hash error %v", i, err)
	}
	if !bytes.Equal(deep[:], s.want[:]) {
		return fmt.Errorf("snapshot %d (v1=%v): LATENT: cached Hash() is still right but the root recomputed from its nodes is %x, spec %x "+
			"(a node shared with another snapshot was modified in place); model %s; %s", i, s.v1, deep[:], s.want[:], s.model.Describe(), ctx())
	}
	return nil
}

type world struct {
	snaps  []*snap
	pool   [][]byte
	descr  strings.Builder
	labels map[string]bool
	// key -> set of snapshot indexes that rewrote it after their creation
	rewrittenBy map[string]map[int]bool
}

func (w *world) logf(f string, a ...any) { fmt.Fprintf(&w.descr, f, a...) }

func (w *world) checkAll() error {
	for i, s := range w.snaps {
		if err := s.check(i, func() string { return "history: " + w.descr.String() }); err != nil {
			return err
		}
	}
	return nil
}

func shortVal(v []byte) string {
	if len(v) > 3 {
		return fmt.Sprintf("%x..%d", v[:2], len(v))
	}
	return fmt.Sprintf("%x", v)
}

func (w *world) put(i int, k, v []byte) error {
	s := w.snaps[i]
	w.logf(" P%d:%x=%s", i, k, shortVal(v))
	if err := s.tr.Put(k, v); err != nil {
		return fmt.Errorf("Put: %v", err)
	}
	old, had := s.model[string(k)]
	newFlag := s.v1 && len(v) > 32
	if !had || !bytes.Equal(old, v) || s.hashed[string(k)] != newFlag {
		s.mutated = true
	}
	if had && bytes.Equal(old, v) && s.hashed[string(k)] != newFlag {
		w.labels["reput-unchanged-big-value-after-upgrade"] = true
		if i > 0 {
			w.labels["version-upgrade-on-shared-node"] = true
		}
	}
	if v == nil {
		v = []byte{}
	}
	s.model[string(k)] = v
	if newFlag {
		s.hashed[string(k)] = true
	} else {
		delete(s.hashed, string(k))
	}
	if i > 0 {
		if w.rewrittenBy[string(k)] == nil {
			w.rewrittenBy[string(k)] = map[int]bool{}
		}
		w.rewrittenBy[string(k)][i] = true
	}
	s.want = mixedRoot(s.model, s.hashed)
	return nil
}

func (w *world) del(i int, k []byte) error {
	s := w.snaps[i]
	w.logf(" D%d:%x", i, k)
	if err := s.tr.Delete(k); err != nil {
		return fmt.Errorf("Delete: %v", err)
	}
	if _, had := s.model[string(k)]; had {
		s.mutated = true
		w.labels["effective-delete"] = true
		delete(s.model, string(k))
		delete(s.hashed, string(k))
		s.want = mixedRoot(s.model, s.hashed)
	}
	return nil
}

func (w *world) clearPrefix(i int, p []byte) error {
	s := w.snaps[i]
	w.logf(" C%d:%x", i, p)
	if err := s.tr.ClearPrefix(p); err != nil {
		return fmt.Errorf("ClearPrefix: %v", err)
	}
	n := 0
	for _, k := range s.model.WithPrefix(p) {
		delete(s.model, k)
		delete(s.hashed, k)
		n++
	}
	if n > 0 {
		s.mutated = true
		w.labels["effective-clearprefix"] = true
		s.want = mixedRoot(s.model, s.hashed)
	}
	return nil
}

func (w *world) snapshot(i int) {
	s := w.snaps[i]
	w.logf(" S%d>%d", i, len(w.snaps))
	s.frozen = true
	ns := &snap{
		tr: s.tr.Snapshot(), model: s.model.Clone(), hashed: cloneFlags(s.hashed), v1: s.v1,
		parent: i, depth: s.depth + 1, forkLen: len(s.model), want: s.want,
	}
	w.snaps = append(w.snaps, ns)
	if ns.depth >= 2 {
		w.labels["snapshot-of-snapshot-depth>=2"] = true
	}
}

func (w *world) upgrade(i int) {
	s := w.snaps[i]
	w.logf(" U%d", i)
	s.tr.SetVersion(trie.V1)
	if !s.v1 {
		s.v1 = true
		s.mutated = true
		w.labels["upgrade-v0-to-v1"] = true
		for _, v := range s.model {
			if len(v) > 32 {
				w.labels["upgrade-while-holding-big-values"] = true
				break
			}
		}
	}
	// the root of the map does not change by the upgrade itself (mixed state)
}

func (w *world) persist(i int) error {
	w.logf(" W%d", i)
	w.labels["persist(WriteDirty)"] = true
	return w.snaps[i].tr.WriteDirty(nullDB{})
}

const maxSnaps = 8

func runCase(t *rapid.T) {
	w := &world{labels: map[string]bool{}, rewrittenBy: map[string]map[int]bool{}}
	rootV1 := rapid.IntRange(0, 3).Draw(t, "rootV1") == 0
	root := &snap{tr: inmemory.NewEmptyTrie(), model: kit.OrdMap{}, hashed: map[string]bool{}, v1: rootV1, parent: -1}
	if rootV1 {
		root.tr.SetVersion(trie.V1)
		w.logf("root=v1")
	} else {
		w.logf("root=v0")
	}
	root.want = mixedRoot(root.model, root.hashed)
	w.snaps = []*snap{root}

	fail := func(err error) {
		t.Fatalf("%v", err)
	}

	drawKey := func() []byte {
		if len(w.pool) > 0 && rapid.IntRange(0, 3).Draw(t, "reuse") > 0 {
			return w.pool[rapid.IntRange(0, len(w.pool)-1).Draw(t, "ki")]
		}
		k := kit.GenKey().Draw(t, "k")
		w.pool = append(w.pool, k)
		return k
	}
	drawValue := func(s *snap, k []byte) []byte {
		if old, ok := s.model[string(k)]; ok && rapid.IntRange(0, 2).Draw(t, "same") == 0 {
			// (one third of the writes to an existing key re-put the unchanged value:
			// the "value rewritten under a new version" case)
			return append([]byte{}, old...) // re-put of the unchanged value
		}
		return kit.GenValue().Draw(t, "v")
	}

	// initial population of the root trie, so that snapshots share nodes
	n0 := rapid.IntRange(0, 12).Draw(t, "n0")
	for j := 0; j < n0; j++ {
		k := drawKey()
		if err := w.put(0, k, drawValue(root, k)); err != nil {
			fail(err)
		}
	}
	if err := w.checkAll(); err != nil {
		fail(err)
	}

	steps := rapid.IntRange(1, 60-n0).Draw(t, "steps")
	for st := 0; st < steps; st++ {
		var live []int // tries real callers may still mutate
		for i, s := range w.snaps {
			if !s.frozen {
				live = append(live, i)
			}
		}
		// weights: put 8, delete 2, clearprefix 1, snapshot 3, upgrade 1, persist 1
		c := rapid.IntRange(0, 15).Draw(t, "op")
		if c >= 11 && c <= 13 && len(w.snaps) >= maxSnaps {
			c = 0
		}
		var err error
		switch {
		case c <= 7:
			i := live[rapid.IntRange(0, len(live)-1).Draw(t, "ti")]
			k := drawKey()
			err = w.put(i, k, drawValue(w.snaps[i], k))
		case c <= 9:
			i := live[rapid.IntRange(0, len(live)-1).Draw(t, "ti")]
			err = w.del(i, drawKey())
		case c == 10:
			i := live[rapid.IntRange(0, len(live)-1).Draw(t, "ti")]
			// prefix = a byte prefix of a key of the pool; prefixes whose last
			// nibble is zero are left to C02 (the implementation trims that
			// nibble, a defect recorded there), so that a failure here is about
			// isolation only.
			k := drawKey()
			p := k[:rapid.IntRange(0, len(k)).Draw(t, "plen")]
			if len(p) > 0 && p[len(p)-1]&0x0f == 0 {
				w.logf(" -")
				break
			}
			err = w.clearPrefix(i, p)
		case c <= 13:
			w.snapshot(rapid.IntRange(0, len(w.snaps)-1).Draw(t, "si"))
		case c == 14:
			w.upgrade(live[rapid.IntRange(0, len(live)-1).Draw(t, "ti")])
		default:
			err = w.persist(rapid.IntRange(0, len(w.snaps)-1).Draw(t, "wi"))
		}
		if err != nil {
			fail(fmt.Errorf("%v; history: %s", err, w.descr.String()))
		}
		if err := w.checkAll(); err != nil {
			fail(err)
		}
	}

	// coverage
	mutatedForks := 0
	for i, s := range w.snaps {
		if i > 0 && s.mutated && s.forkLen > 0 {
			mutatedForks++
		}
		mixed := false
		for k, v := range s.model {
			if s.v1 && len(v) > 32 && !s.hashed[k] {
				mixed = true
			}
		}
		if mixed {
			w.labels["mixed-version-state(big value still inlined under v1)"] = true
		}
	}
	for _, by := range w.rewrittenBy {
		if len(by) >= 2 {
			// two different snapshots wrote the same key: siblings or ancestor/descendant
			idx := make([]int, 0, len(by))
			for i := range by {
				idx = append(idx, i)
			}
			sort.Ints(idx)
			for a := 0; a < len(idx); a++ {
				for b := a + 1; b < len(idx); b++ {
					if w.snaps[idx[a]].parent == w.snaps[idx[b]].parent {
						w.labels["same-key-rewritten-in-two-siblings"] = true
					}
				}
			}
		}
	}
	if len(w.snaps) >= 4 {
		w.labels["snapshots>=4"] = true
	}
	ls := make([]string, 0, len(w.labels))
	for l := range w.labels {
		ls = append(ls, l)
	}
	sort.Strings(ls)
	kit.Case(w.descr.String(), mutatedForks >= 2, ls...)
}

func TestC03SnapshotTree(t *testing.T) {
	defer kit.Flush()
	rapid.Check(t, runCase)
}
