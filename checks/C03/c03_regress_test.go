package c03

import (
	"bytes"
	"testing"

	kit "github.com/ChainSafe/gossamer/internal/verifkit"
	"github.com/ChainSafe/gossamer/pkg/trie"
	"github.com/ChainSafe/gossamer/pkg/trie/inmemory"
)

// TestC03Regressions: shrunk failures of TestC03SnapshotTree on the pinned
// tree, replayed deterministically without the generator.
func TestC03Regressions(t *testing.T) {
	defer kit.Flush()
	big := bytes.Repeat([]byte{0xaa}, 33)

	// 1. leaf: original V0 {00: 33 bytes}; snapshot; SetVersion(V1) on the
	//    snapshot; re-put of the unchanged value -> the shared leaf got
	//    MustBeHashed=true in place and the ORIGINAL V0 trie hashed the value.
	// 2. branch value: same with the value sitting on a branch node.
	for name, keys := range map[string][][]byte{
		"leaf":         {{0x00}},
		"branch-value": {{0x00}, {0x00, 0x01}},
		"nested-leaf":  {{0x10}, {0x11}, {0xf0}},
	} {
		for _, persist := range []bool{false, true} {
			orig := inmemory.NewEmptyTrie()
			model := kit.OrdMap{}
			for _, k := range keys {
				if err := orig.Put(k, big); err != nil {
					t.Fatal(err)
				}
				model[string(k)] = big
			}
			want := kit.SpecRoot(model, false)
			if persist {
				if err := orig.WriteDirty(nullDB{}); err != nil {
					t.Fatal(err)
				}
			}
			s := orig.Snapshot()
			s.SetVersion(trie.V1)
			if err := s.Put(keys[0], big); err != nil {
				t.Fatal(err)
			}
			// the snapshot: keys[0] is now hashed, the others still inlined
			wantSnap := mixedRoot(model, map[string]bool{string(keys[0]): true})
			if got := s.MustHash(); got != wantSnap {
				t.Errorf("%s persist=%v: snapshot root %x, spec %x", name, persist, got[:], wantSnap[:])
			}
			if got := orig.MustHash(); got != want {
				t.Errorf("%s persist=%v: ORIGINAL root changed by an operation on its snapshot: %x, spec %x", name, persist, got[:], want[:])
			}
			if got, err := deepRoot(orig); err != nil || got != want {
				t.Errorf("%s persist=%v: ORIGINAL nodes changed by an operation on its snapshot: deep root %x, spec %x (%v)", name, persist, got[:], want[:], err)
			}
			// a second snapshot of the original touching an unrelated key sees the corruption
			s2 := orig.Snapshot()
			if err := s2.Put([]byte{0xff, 0xff}, []byte{1}); err != nil {
				t.Fatal(err)
			}
			m2 := model.Clone()
			m2["\xff\xff"] = []byte{1}
			if got, w := s2.MustHash(), kit.SpecRoot(m2, false); got != w {
				t.Errorf("%s persist=%v: sibling snapshot root %x, spec %x", name, persist, got[:], w[:])
			}
			kit.Case(name, true, "regression")
		}
	}
}
