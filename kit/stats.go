// Package verifkit is the shared helper package of the /verif checks. It is
// overlaid into the gossamer module as
// github.com/ChainSafe/gossamer/internal/verifkit at build time.
package verifkit

import (
	"encoding/binary"
	"encoding/json"
	"hash/fnv"
	"os"
	"sort"
	"sync"
)

const maxHashes = 4 << 20 // cap of the distinct-nontrivial hash set per process
const nFirst = 3
const nReservoir = 6

type sample struct {
	H     uint64 `json:"h"`
	Descr string `json:"descr"`
}

type statsT struct {
	mu        sync.Mutex
	evals     int64
	nontriv   int64
	hashes    map[uint64]struct{}
	capped    bool
	labels    map[string]int64
	first     []sample
	reservoir []sample // the nReservoir non-trivial cases with the smallest hash (deterministic, mergeable)
	excluded  map[string]int64
	notes     map[string]string
}

var st = statsT{
	hashes:   map[uint64]struct{}{},
	labels:   map[string]int64{},
	excluded: map[string]int64{},
	notes:    map[string]string{},
}

func hash64(s string) uint64 {
	h := fnv.New64a()
	_, _ = h.Write([]byte(s))
	return h.Sum64()
}

// Case records one generated case. descr is a canonical description of the
// case (used for distinctness and shown verbatim as a sample when the case is
// non-trivial by the property's stated rule).
func Case(descr string, nontrivial bool, labels ...string) {
	st.mu.Lock()
	defer st.mu.Unlock()
	st.evals++
	for _, l := range labels {
		st.labels[l]++
	}
	if !nontrivial {
		return
	}
	st.nontriv++
	h := hash64(descr)
	if _, ok := st.hashes[h]; ok {
		return
	}
	if len(st.hashes) < maxHashes {
		st.hashes[h] = struct{}{}
	} else {
		st.capped = true
		return
	}
	if len(descr) > 600 {
		descr = descr[:600] + "…"
	}
	if len(st.first) < nFirst {
		st.first = append(st.first, sample{h, descr})
		return
	}
	if len(st.reservoir) < nReservoir {
		st.reservoir = append(st.reservoir, sample{h, descr})
		sort.Slice(st.reservoir, func(i, j int) bool { return st.reservoir[i].H < st.reservoir[j].H })
		return
	}
	if h < st.reservoir[nReservoir-1].H {
		st.reservoir[nReservoir-1] = sample{h, descr}
		sort.Slice(st.reservoir, func(i, j int) bool { return st.reservoir[i].H < st.reservoir[j].H })
	}
}

// Label adds to the label histogram without counting a case.
func Label(labels ...string) {
	st.mu.Lock()
	defer st.mu.Unlock()
	for _, l := range labels {
		st.labels[l]++
	}
}

// Excluded counts a generated case (or step) that was steered away from a
// known finding by construction.
func Excluded(findingID string) {
	st.mu.Lock()
	defer st.mu.Unlock()
	st.excluded[findingID]++
}

// Note attaches a free-text note (e.g. the non-triviality rule) to the stats.
func Note(key, text string) {
	st.mu.Lock()
	defer st.mu.Unlock()
	st.notes[key] = text
}

type statsFile struct {
	Evaluations int64             `json:"evaluations"`
	Nontrivial  int64             `json:"nontrivial_total"`
	Distinct    int               `json:"distinct_nontrivial"`
	Capped      bool              `json:"distinct_capped"`
	Labels      map[string]int64  `json:"labels"`
	Excluded    map[string]int64  `json:"excluded_known"`
	First       []sample          `json:"first"`
	Reservoir   []sample          `json:"reservoir"`
	Notes       map[string]string `json:"notes"`
	HashFile    string            `json:"hash_file"`
}

// Flush writes the statistics of this process to $VERIF_STATS (JSON) and the
// distinct hash set to $VERIF_STATS.hashes (8 bytes little endian each). It is
// a no-op when the variable is unset. It can be called several times; the
// last call wins.
func Flush() {
	path := os.Getenv("VERIF_STATS")
	if path == "" {
		return
	}
	st.mu.Lock()
	defer st.mu.Unlock()
	buf := make([]byte, 0, 8*len(st.hashes))
	for h := range st.hashes {
		buf = binary.LittleEndian.AppendUint64(buf, h)
	}
	_ = os.WriteFile(path+".hashes", buf, 0o644)
	sf := statsFile{
		Evaluations: st.evals, Nontrivial: st.nontriv, Distinct: len(st.hashes), Capped: st.capped,
		Labels: st.labels, Excluded: st.excluded, First: st.first, Reservoir: st.reservoir,
		Notes: st.notes, HashFile: path + ".hashes",
	}
	b, _ := json.Marshal(sf)
	_ = os.WriteFile(path, b, 0o644)
}
