package verifkit

import (
	"bytes"
	"fmt"
	"sort"
	"strings"

	"pgregory.net/rapid"
)

// Small byte alphabet that forces shared nibble prefixes, keys that are
// prefixes of other keys and keys/prefixes that end in a zero nibble. The
// nibbles used are 0, 1, 2, e, f: sibling indices include pairs that are not
// bit-subsets of each other (1|2 != 2, 1|e != e), which code that packs or
// masks nibbles can tell apart from the chain 0 < 1 < f.
var keyAlphabet = []byte{0x00, 0x01, 0x0f, 0x10, 0x11, 0x1f, 0xf0, 0xff, 0x12, 0x21, 0x2e}

// ValueLens are the value lengths around the inline/hash threshold.
var ValueLens = []int{0, 1, 2, 30, 31, 32, 33, 34, 64, 100}

// GenKey draws a trie key: mostly 0-4 bytes over the small alphabet, with
// probability ~10 % a long key (33-80 bytes) with a long common prefix so that
// partial keys reach 63, 64 and more nibbles.
func GenKey() *rapid.Generator[[]byte] {
	return rapid.Custom(func(t *rapid.T) []byte {
		if rapid.IntRange(0, 9).Draw(t, "long") == 0 {
			n := rapid.SampledFrom([]int{31, 32, 33, 40, 80, 160, 200}).Draw(t, "plen")
			fill := rapid.SampledFrom([]byte{0x00, 0x11, 0xab}).Draw(t, "fill")
			k := bytes.Repeat([]byte{fill}, n)
			tail := rapid.SliceOfN(rapid.SampledFrom(keyAlphabet), 0, 2).Draw(t, "tail")
			return append(k, tail...)
		}
		n := rapid.SampledFrom([]int{0, 1, 1, 2, 2, 2, 3, 3, 4}).Draw(t, "klen")
		return rapid.SliceOfN(rapid.SampledFrom(keyAlphabet), n, n).Draw(t, "key")
	})
}

// GenShortKey draws only short keys (0-3 bytes) over the small alphabet.
func GenShortKey() *rapid.Generator[[]byte] {
	return rapid.Custom(func(t *rapid.T) []byte {
		n := rapid.SampledFrom([]int{0, 1, 1, 2, 2, 2, 3}).Draw(t, "klen")
		return rapid.SliceOfN(rapid.SampledFrom(keyAlphabet), n, n).Draw(t, "key")
	})
}

// GenValue draws a value with a length from ValueLens (sometimes random) and
// content derived from a drawn byte so that equal lengths can differ.
func GenValue() *rapid.Generator[[]byte] {
	return rapid.Custom(func(t *rapid.T) []byte {
		var n int
		if rapid.IntRange(0, 7).Draw(t, "rndlen") == 0 {
			n = rapid.IntRange(0, 120).Draw(t, "vlen")
		} else {
			n = rapid.SampledFrom(ValueLens).Draw(t, "vlen")
		}
		seed := rapid.Byte().Draw(t, "vseed")
		v := make([]byte, n)
		for i := range v {
			v[i] = seed + byte(i*7)
		}
		return v
	})
}

// OrdMap is the ordered byte-string map reference model.
type OrdMap map[string][]byte

func (m OrdMap) Clone() OrdMap {
	c := make(OrdMap, len(m))
	for k, v := range m {
		c[k] = append([]byte{}, v...)
	}
	return c
}

// Keys returns all keys in ascending byte order.
func (m OrdMap) Keys() []string {
	ks := make([]string, 0, len(m))
	for k := range m {
		ks = append(ks, k)
	}
	sort.Strings(ks)
	return ks
}

// WithPrefix returns the keys starting with p, ascending.
func (m OrdMap) WithPrefix(p []byte) []string {
	var out []string
	for _, k := range m.Keys() {
		if strings.HasPrefix(k, string(p)) {
			out = append(out, k)
		}
	}
	return out
}

// Next returns the smallest key strictly greater than k.
func (m OrdMap) Next(k []byte) ([]byte, bool) {
	for _, c := range m.Keys() {
		if c > string(k) {
			return []byte(c), true
		}
	}
	return nil, false
}

// Describe renders the map compactly (sorted) for samples and messages.
func (m OrdMap) Describe() string {
	var sb strings.Builder
	sb.WriteString("{")
	for i, k := range m.Keys() {
		if i > 0 {
			sb.WriteString(" ")
		}
		v := m[k]
		if len(v) > 4 {
			fmt.Fprintf(&sb, "%x:%x..(%d)", k, v[:2], len(v))
		} else {
			fmt.Fprintf(&sb, "%x:%x", k, v)
		}
	}
	sb.WriteString("}")
	return sb.String()
}

// SharesNibblePrefix reports whether at least two keys of m share a non-empty
// nibble prefix or one is a prefix of the other.
func (m OrdMap) SharesNibblePrefix() bool {
	ks := m.Keys()
	for i := 0; i+1 < len(ks); i++ {
		a, b := KeyNibbles([]byte(ks[i])), KeyNibbles([]byte(ks[i+1]))
		if len(a) == 0 || (len(b) > 0 && a[0] == b[0]) {
			return true
		}
	}
	return false
}
