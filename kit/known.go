package verifkit

import (
	"encoding/json"
	"fmt"
	"os"
	"sync"
)

// Finding is one entry of /verif/known_findings.json.
type Finding struct {
	ID       string `json:"id"`
	Property string `json:"property"`
	Status   string `json:"status"` // "open"
	What     string `json:"what"`
}

type knownFile struct {
	Findings []Finding `json:"findings"`
	Fixed    []string  `json:"fixed"`
}

var (
	knownOnce sync.Once
	knownSet  map[string]Finding
)

func loadKnown() {
	knownSet = map[string]Finding{}
	path := os.Getenv("VERIF_KNOWN")
	if path == "" {
		return
	}
	b, err := os.ReadFile(path)
	if err != nil {
		return
	}
	var kf knownFile
	if json.Unmarshal(b, &kf) != nil {
		return
	}
	for _, f := range kf.Findings {
		if f.Status == "open" {
			knownSet[f.ID] = f
		}
	}
}

// KnownOpen reports whether finding id is listed as an open (recorded, not
// repaired) finding in known_findings.json. Generators use it to steer around
// exactly the trigger class of that finding; when the entry is not listed the
// generator does not exclude anything and the check reports the violation.
// The file is only ever read.
func KnownOpen(id string) bool {
	knownOnce.Do(loadKnown)
	_, ok := knownSet[id]
	return ok
}

// WitnessResult is printed by witness tests; the driver turns "present" into a
// KNOWN-FINDING line.
func WitnessResult(id string, present bool, detail string) {
	state := "ABSENT"
	if present {
		state = "PRESENT"
	}
	fmt.Printf("VERIF-WITNESS %s %s %s\n", id, state, detail)
}
