package verifkit

import (
	"sort"

	"golang.org/x/crypto/blake2b"
)

// spectrie: the Polkadot state-trie Merkle root computed directly from a
// key/value map by recursive construction, written from the specification
// (https://spec.polkadot.network/chap-state#sect-state-storage-trie-structure and
// paritytech/trie `trie-root`). It shares no code with gossamer's pkg/trie;
// only the BLAKE2b-256 primitive (x/crypto) is trusted.

// Blake256 is BLAKE2b with a 32-byte digest.
func Blake256(b []byte) [32]byte { return blake2b.Sum256(b) }

// KeyNibbles splits a key into nibbles, high nibble first.
func KeyNibbles(key []byte) []byte {
	n := make([]byte, 0, 2*len(key))
	for _, b := range key {
		n = append(n, b>>4, b&0x0f)
	}
	return n
}

// SpecCompact encodes n as a SCALE compact integer (n < 2^30 is all that the
// trie needs; larger values use big-integer mode).
func SpecCompact(n uint64) []byte {
	switch {
	case n < 1<<6:
		return []byte{byte(n << 2)}
	case n < 1<<14:
		v := uint16(n<<2) | 1
		return []byte{byte(v), byte(v >> 8)}
	case n < 1<<30:
		v := uint32(n<<2) | 2
		return []byte{byte(v), byte(v >> 8), byte(v >> 16), byte(v >> 24)}
	}
	var raw []byte
	for x := n; x > 0; x >>= 8 {
		raw = append(raw, byte(x))
	}
	return append([]byte{byte((len(raw)-4)<<2) | 3}, raw...)
}

type specKV struct {
	k []byte // nibbles
	v []byte
}

const (
	specLeaf          = 0b01 << 6
	specBranchNoValue = 0b10 << 6
	specBranchValue   = 0b11 << 6
	specLeafHashed    = 0b001 << 5
	specBranchHashed  = 0b0001 << 4
)

// SpecHeader returns the header bytes (variant + partial key length).
func SpecHeader(variant byte, pkLen int) []byte {
	var max int
	switch variant {
	case specLeaf, specBranchNoValue, specBranchValue:
		max = 0x3f
	case specLeafHashed:
		max = 0x1f
	case specBranchHashed:
		max = 0x0f
	default:
		panic("bad variant")
	}
	if pkLen < max {
		return []byte{variant | byte(pkLen)}
	}
	out := []byte{variant | byte(max)}
	rest := pkLen - max
	for rest >= 255 {
		out = append(out, 255)
		rest -= 255
	}
	return append(out, byte(rest))
}

// SpecPackNibbles packs nibbles two per byte; an odd count is padded with a
// leading zero nibble.
func SpecPackNibbles(n []byte) []byte {
	out := make([]byte, 0, len(n)/2+1)
	i := 0
	if len(n)%2 == 1 {
		out = append(out, n[0]&0x0f)
		i = 1
	}
	for ; i < len(n); i += 2 {
		out = append(out, n[i]<<4|n[i+1]&0x0f)
	}
	return out
}

func specValuePart(v []byte, v1 bool) (enc []byte, hashed bool) {
	if v1 && len(v) > 32 {
		h := Blake256(v)
		return h[:], true
	}
	return append(SpecCompact(uint64(len(v))), v...), false
}

func specEncode(es []specKV, off int, v1 bool) []byte {
	if len(es) == 1 {
		pk := es[0].k[off:]
		val, hashed := specValuePart(es[0].v, v1)
		variant := byte(specLeaf)
		if hashed {
			variant = specLeafHashed
		}
		out := SpecHeader(variant, len(pk))
		out = append(out, SpecPackNibbles(pk)...)
		return append(out, val...)
	}
	a, b := es[0].k[off:], es[len(es)-1].k[off:]
	cp := 0
	for cp < len(a) && cp < len(b) && a[cp] == b[cp] {
		cp++
	}
	pk := a[:cp]
	rest := es
	var valPart []byte
	variant := byte(specBranchNoValue)
	if len(es[0].k) == off+cp {
		var hashed bool
		valPart, hashed = specValuePart(es[0].v, v1)
		variant = specBranchValue
		if hashed {
			variant = specBranchHashed
		}
		rest = es[1:]
	}
	var bitmap uint16
	var children []byte
	for i := 0; i < len(rest); {
		nib := rest[i].k[off+cp]
		j := i
		for j < len(rest) && rest[j].k[off+cp] == nib {
			j++
		}
		bitmap |= 1 << nib
		childEnc := specEncode(rest[i:j], off+cp+1, v1)
		if len(childEnc) >= 32 {
			h := Blake256(childEnc)
			childEnc = h[:]
		}
		children = append(children, SpecCompact(uint64(len(childEnc)))...)
		children = append(children, childEnc...)
		i = j
	}
	out := SpecHeader(variant, len(pk))
	out = append(out, SpecPackNibbles(pk)...)
	out = append(out, byte(bitmap), byte(bitmap>>8))
	out = append(out, valPart...)
	return append(out, children...)
}

// SpecRootEncoding returns the encoding of the root node of the trie holding
// exactly m (nil for the empty map).
func SpecRootEncoding(m map[string][]byte, v1 bool) []byte {
	if len(m) == 0 {
		return []byte{0}
	}
	keys := make([]string, 0, len(m))
	for k := range m {
		keys = append(keys, k)
	}
	sort.Strings(keys)
	es := make([]specKV, len(keys))
	for i, k := range keys {
		es[i] = specKV{KeyNibbles([]byte(k)), m[k]}
	}
	return specEncode(es, 0, v1)
}

// SpecRoot is the Merkle root of the state trie holding exactly m: the
// BLAKE2b-256 hash of the root node encoding (the root is always hashed);
// the empty trie has root BLAKE2b-256(0x00).
func SpecRoot(m map[string][]byte, v1 bool) [32]byte {
	return Blake256(SpecRootEncoding(m, v1))
}
